"""Per-property profiles and the shared check / replay drivers."""
from __future__ import annotations

import json
import os
import sys
import time

from . import batch, minimise, runner, seam

VERIF = batch.VERIF


class Profile:
    def __init__(self, prop, run_seed, replay_case, quick_runs, quick_budget, thorough_budget, rule, assumptions,
                 evidence_extra=None, pre=None, step_slots=None, sweep=None):
        self.prop = prop
        self.run_seed = run_seed
        self.replay_case = replay_case
        self.quick_runs = quick_runs
        self.quick_budget = quick_budget
        self.thorough_budget = thorough_budget
        self.rule = rule
        self.assumptions = assumptions
        self.evidence_extra = evidence_extra
        self.pre = pre
        self.step_slots = step_slots
        self.sweep = sweep


PROFILES: dict[str, Profile] = {}

# ---------------------------------------------------------------------------------------------------------------------
# C12

_cov_reported: set = set()


def c12_run_seed(seed, want_sample: bool = False) -> dict:
    r = runner.run_c12_seed(seed, want_sample)
    new = [k for k in seam.COVERED if k not in _cov_reported]
    _cov_reported.update(new)
    r["cov_new"] = new
    return r


def c12_evidence_extra(agg: dict) -> dict:
    from .catalogue import OPS, uncatalogued_api

    st = agg["stats"]
    cov = agg.get("cov", set())
    ws_total = len(seam.WRITE_SITES)
    ws_reached = len([k for k in seam.WRITE_SITES if k in cov])
    ex = seam.EXECUTABLE_LINES
    ok = st.get("ok_by_op", {})
    never_ok = sorted(n for n in OPS if ok.get(n, 0) == 0)
    fired = dict(st.get("faults_fired", {}))
    fired["preempt"] = st.get("preemptions", 0)
    fired["domain_exc"] = st.get("domain_exc", 0)
    return {
        "steps_executed": st.get("steps", 0),
        "logical_clock_line_events": st.get("lines", 0),
        "simulated_time": "none - the system has no clock; logical time is the count of geometer LINE events",
        "reasks_compared_bitwise": st.get("reasks", 0),
        "numeric_noise": st.get("numeric_noise", 0),
        "representative_noise": st.get("representative_noise", 0),
        "faults_fired": fired,
        "configurations": agg["configs"],
        "distinct_switch_sites": len(st.get("switch_sites", {})),
        "distinct_async_fault_sites": len(st.get("fault_sites", {})),
        "write_sites": {"total": ws_total, "reached": ws_reached,
                        "unreached": sorted(seam.site_str(k) + " " + seam.WRITE_SITE_FUNCS[k]
                                            for k in seam.WRITE_SITES if k not in cov)},
        "geometer_line_coverage": {"covered": len([k for k in ex if k in cov]), "executable": len(ex)},
        "catalogue": {"ops": len(OPS), "ops_with_successful_execution": len(OPS) - len(never_ok),
                      "never_successful": never_ok},
        "uncatalogued_api": uncatalogued_api(),
        "directed_write_site_sweep": {k: v for k, v in (agg.get("sweep") or {}).items() if k != "stats"} | {
            "sites_swept": len(agg.get("site_hits", {})), "variants": runner.VARIANTS + runner.DUET2,
            "variant_runs": (agg.get("sweep") or {}).get("stats", {}).get("directed", {})},
        "real_vs_stub": {"real": ["geometer (all modules)", "numpy", "CPython threads"],
                         "simulated": ["client scheduling", "logical clock", "fault delivery", "cache eviction"],
                         "stubbed": []},
    }


def c12_sweep(agg, tier):
    """Directed fault sweep: every write-site reached by the random phase gets every fault variant, aimed right
    before and right after the write, on up to `per_site` programs that reached it."""
    import hashlib

    per_site = 1 if tier == "quick" else 3
    ops_per_site = 6 if tier == "quick" else 24
    tasks = []
    for site in sorted(agg.get("site_hits", {})):
        for j, seed in enumerate(agg["site_hits"][site][:3]):
            for variant in runner.VARIANTS:
                # the schedule variants depend on what the OTHER client happens to do (its operands may be copies of
                # the first client's, its parameters may make the operation trivial), so they get a second program
                if variant.startswith("duet"):
                    continue
                if j < per_site or (j == 1 and variant.startswith("switch")):
                    tasks.append((seed, list(site), variant))
        # duets: a site inside a helper is reached by many operations, and whether state leaking between two calls
        # shows depends on the operation that is doubled -- every (site, operation) pair seen in the random phase is
        # a candidate; a fixed pseudo-random subset of them per site is run (all of them up to the cap)
        ops = agg.get("site_ops", {}).get(site, {})
        order = sorted(ops, key=lambda o_: hashlib.blake2b(f"{site}|{o_}".encode(), digest_size=8).digest())
        for j, op_ in enumerate(order[:ops_per_site]):
            seed = ops[op_][1]
            for variant in (("duet_pre", "duet_post") if j < ops_per_site // 2 or tier != "quick" else ("duet_post",)):
                tasks.append((seed, list(site), variant, op_))
            if tier != "quick" and j < 8:
                for variant in runner.DUET2:
                    tasks.append((seed, list(site), variant, op_))
        if len(order) <= 3:
            # a site that only a few operations reach (a memo inside one function) gets its duets on up to three
            # programs per operation: whether the leak shows depends on the operands and parameters the doubled call
            # happens to have (an angle of 0, an axis that is a copy of the first call's)
            for op_ in order:
                for _idx, seed2 in agg.get("site_op_seeds", {}).get((tuple(site), op_), [])[1:]:
                    for variant in ("duet_pre", "duet_post"):
                        tasks.append((seed2, list(site), variant, op_))
    return tasks


PROFILES["C12"] = Profile(
    "C12", c12_run_seed, runner.replay_case, quick_runs=3200, quick_budget=150, thorough_budget=900,
    rule=("one evaluation = one seeded run: a pool of 30-60 live objects built from recipes (aliased on purpose), a "
          "program of 5-40 (thorough: up to 80) catalogue operations issued by 1-4 (thorough: up to 6) clients, executed fault-free in SEQ (golden; O1 after "
          "every step, O2 on re-asks and in a final re-ask pass) and then once more under one of "
          "{seq_env, seq_async, preempt, preempt_all} with O1 at every scheduler entry, O3 against the golden "
          "answers and O4 after the last fault. distinct = distinct history signature (sequence of (client, op, "
          "arity, outcome class), plus the realised schedule for PREEMPT); non-trivial = at least two executed "
          "steps touch a common pool object"),
    assumptions=[
        "faults and pre-emptions land on geometer line boundaries only (sys.monitoring LINE events at the bytecode "
        "offset that begins a source line; CPython's additional mid-line events, about 5 % of the raw events, are "
        "ignored because their occurrence depends on the interpreter's warm-up state), not inside numpy C calls or "
        "between bytecodes of one line",
        "Tensor.__setitem__, attribute assignment and TensorDiagram.add_node/add_edge are mutators by contract and "
        "are not generated",
        "bitwise answer comparison; differences within 8 ulp, or within 64 eps of the largest entry of the same "
        "array, with unchanged state are counted as numeric_noise (numpy's blocked kernels round differently for "
        "differently aligned temporaries); arrays above 256 KiB are compared by digest only",
        "sampling, not enumeration: a clean batch is evidence, not proof",
    ],
    evidence_extra=c12_evidence_extra, sweep=c12_sweep,
)


# ---------------------------------------------------------------------------------------------------------------------
# C05


def c05_pre(tier, args):
    from . import model_diagram as MD

    return MD.exhaustive_tables(tier)


def c05_evidence_extra(agg: dict) -> dict:
    st = agg["stats"]
    fired = dict(st.get("faults_fired", {}))
    fired["preempt"] = st.get("preemptions", 0)
    return {
        "steps_executed": st.get("steps", 0),
        "logical_clock_line_events": st.get("lines", 0),
        "simulated_time": "none - the system has no clock; logical time is the count of geometer LINE events",
        "values_compared_with_model": st.get("values_compared", 0),
        "predicted_TensorComputationErrors_confirmed": st.get("predicted_errors", 0),
        "executed_steps_by_op": st.get("by_op", {}),
        "faults_fired": fired,
        "configurations": agg["configs"],
        "distinct_switch_sites": len(st.get("switch_sites", {})),
        "distinct_async_fault_sites": len(st.get("fault_sites", {})),
        "runs_retired_because_an_operand_was_corrupted (C12 matter)": st.get("corrupted_runs", 0),
        "real_vs_stub": {"real": ["geometer.base (TensorDiagram, Tensor, LeviCivitaTensor, KroneckerDelta)", "numpy",
                                  "CPython threads"],
                         "simulated": ["client scheduling", "logical clock", "fault delivery", "cache eviction"],
                         "reference_model": "M5 (exact outer product + explicit traces, no einsum; inversion-parity "
                                            "epsilon; determinant-of-elementary-deltas delta)",
                         "stubbed": []},
    }


def _c05_run_seed(seed, want_sample=False):
    from . import model_diagram as MD

    return MD.run_c05_seed(seed, want_sample)


def _c05_replay(case):
    from . import model_diagram as MD

    return MD.replay_case(case)


PROFILES["C05"] = Profile(
    "C05", _c05_run_seed, _c05_replay, quick_runs=9000, quick_budget=120, thorough_budget=600,
    rule=("one evaluation = one seeded run: 6-14 node tensors (rank 1-4, axis sizes 2-4, every index-type pattern, "
          "integer and complex-integer entries, epsilon/delta nodes, second node objects sharing an array) and a "
          "model-guided program of 6-32 builder/evaluation/cache steps (new with constructor edges, add_node, add_edge "
          "incl. repeated edges, self-edges and illegal edges, copy followed by edits of copy and original, calculate "
          "at any time, results fed back as nodes, Tensor.__mul__/__pow__/tensor_product, epsilon/delta construction, "
          "cache eviction) by 1-4 clients; executed fault-free in SEQ with the reference model in lock-step, then "
          "again under {async exceptions + mid-step cache eviction, line-granular pre-emption, both}. Plus an "
          "exhaustive entry-by-entry table comparison (coverage.tables). distinct = distinct (program shape, "
          "outcomes, schedule) signature; non-trivial = at least two successful builder steps"),
    assumptions=[
        "node identity = Python object identity (forced by tests/test_base.py::test_add_edge)",
        "'first' unused index = lowest axis number",
        "nodes with ONE leading collection axis of a common length are included under the elementwise reading (the "
        "free indices of all nodes are aligned; result = stack of the per-element diagrams, collection axis first); "
        "other free-index patterns are excluded: the statement does not define them",
        "an add_edge that is rejected with TensorComputationError must leave the diagram as it was (the rejected edge is "
        "not an edge of the diagram); a diagram on which a builder call was INTERRUPTED by an injected asynchronous "
        "exception is retired (atomicity under asynchronous exceptions is not claimed)",
        "diagrams whose nodes ALL have a narrow dtype (int8: epsilon, delta(n,n), user int8; bool) are not compared when "
        "their L1 bound exceeds what the dtype holds (numpy keeps the narrow dtype; rank-0 nodes do not widen it because "
        "numpy 1.x promotes 0-d operands by value) - dtype overflow is an input matter; mixed narrow/wide diagrams ARE "
        "compared (numpy must promote before multiplying)",
        "sampling of programs x schedules x faults; only the epsilon/delta tables are exhaustive",
    ],
    evidence_extra=c05_evidence_extra, pre=c05_pre,
    step_slots=lambda s: [s[k] for k in ("t", "s", "a", "b") if k in s and s["op"] not in ("eps", "delta")]
    + [x for e in s.get("edges", []) for x in e] + [x for o in s.get("ops", []) for x in o[1:]],
)


# ---------------------------------------------------------------------------------------------------------------------
# C06


def c06_evidence_extra(agg: dict) -> dict:
    st = agg["stats"]
    return {
        "steps_executed": st.get("steps", 0),
        "logical_clock_line_events": st.get("lines", 0),
        "simulated_time": "none - the system has no clock",
        "applications_by_kind": st.get("applications", {}),
        "law_probes": st.get("laws", {}),
        "steps_by_kind": st.get("ops", {}),
        "representation_invariants_checked": st.get("rep_invariants", 0),
        "law_probes_where_both_sides_raised": st.get("both_raised", 0),
        "max_projective_defect_seen": st.get("max_projective_defect", 0.0),
        "max_affine_chart_defect_over_its_tolerance_seen": st.get("max_affine_defect", 0.0),
        "tolerance": "1 - cos^2 <= 1e-12 (projective angle <= 1e-6), generated chains keep cond <= 1e4, entries <= 1e6; "
                     "point-like objects additionally: affine coordinates within 100*eps*cond^2*|x|/|x_n| (far objects meet cond <= 100 only)",
        "faults_fired": {"note": "none injected: asynchronous exceptions, eviction and pre-emption interact with the "
                                 "group laws only through purity, which is C12's subject (DESIGN.md section 6)"},
        "configurations": agg["configs"],
        "real_vs_stub": {"real": ["geometer (transformation, base, shapes, point, curve, utils.math)", "numpy"],
                         "simulated": ["history generation", "logical clock (line count only)"],
                         "reference_model": "M6: laws on library-computed sides + numpy shadow matrices for conditioning",
                         "stubbed": []},
    }


def _c06_run_seed(seed, want_sample=False):
    from . import model_group as MG

    return MG.run_c06_seed(seed, want_sample)


def _c06_replay(case):
    from . import model_group as MG

    return MG.replay_case(case)


PROFILES["C06"] = Profile(
    "C06", _c06_run_seed, _c06_replay, quick_runs=10000, quick_budget=120, thorough_budget=600,
    rule=("one evaluation = one seeded history in dimension 1, 2 or 3: a pool of invertible transformations (integer "
          "matrices with |det| in 1..6, translations, rotations, scalings, a TransformationCollection of length 1, 2, 3, "
          "64 or 65) and of objects of every transformable kind (points, lines, planes, quadrics incl. dual, segments, "
          "polygons in 2D/3D, polyhedra, and collections of these), then 6-30 steps: x <- t*x (chains up to 8), "
          "t <- s*t, t <- t.inverse(), t <- t**k, identity, and law probes L1-L4 on the evolved values; L5 (same kind, "
          "same shape, cached _line/_plane contains the image vertices) after every application. distinct = distinct "
          "(pool kinds, step sequence) signature; non-trivial = at least two successful apply/compose/pow/inverse "
          "steps"),
    assumptions=[
        "projective comparison with tolerance 1e-12 on 1-cos^2; the generator keeps every chain's condition number "
        "<= 1e4 (numpy shadow), which bounds legitimate float discrepancies far below the tolerance",
        "TransformationCollections are applied only to point/line/plane/quadric collections of the same length; "
        "their action on polytopes and single objects aligns free indices in a way the statement does not define",
        "no fault dimension (see DESIGN.md section 6); histories only",
        "sampling, not enumeration",
    ],
    evidence_extra=c06_evidence_extra,
    step_slots=lambda s: [s[k] for k in ("s", "t", "x") if k in s],
)


# ---------------------------------------------------------------------------------------------------------------------
# drivers


def _progress(agg, el):
    print(f"  .. {agg['runs']} runs, {el:.0f}s, {len(agg['violations'])} violation signature(s)", flush=True)


def do_check(prof: Profile, args) -> int:
    t0 = time.time()
    tier = args.tier
    n_runs = args.runs if args.runs is not None else (prof.quick_runs if tier == "quick" else None)
    budget = args.budget if args.budget is not None else (prof.quick_budget if tier == "quick" else prof.thorough_budget)
    print(f"geosim check property={prof.prop} tier={tier} VERIF_SEED={args.seed} runs={n_runs} budget={budget}s "
          f"workers={args.workers}", flush=True)
    os.environ["GEOSIM_TIER"] = tier   # inherited by the forked workers and the determinism subprocesses
    runner.worker_init()
    pre_info = {}
    pre_violations = []
    if prof.pre is not None:
        pre_info, pre_violations = prof.pre(tier, args)
    det = None
    if not args.no_selftest:
        from . import selftest

        det = selftest.determinism(prof.prop, args.seed, 12 if tier == "quick" else 200, args.workers)
        if not det["ok"]:
            print(f"HARNESS-ERROR nondeterminism: {det['detail']}")
            return 2
    agg = batch.run_batch(prof.run_seed, args.seed, n_runs, budget, args.workers,
                                progress=_progress if tier == "thorough" else None)
    agg.setdefault("cov", set())
    if prof.sweep is not None and not agg["harness_errors"] and not agg["violations"]:
        tasks = prof.sweep(agg, tier)
        t1 = time.time()
        agg2 = batch.run_batch(prof.run_seed, args.seed, None, max(60.0, budget), args.workers, tasks=tasks)
        agg["sweep"] = {"tasks": len(tasks), "runs": agg2["runs"], "configs": agg2["configs"],
                        "wall_s": round(time.time() - t1, 1), "stats": agg2["stats"]}
        batch.merge(agg["stats"], agg2["stats"])
        agg["runs"] += agg2["runs"]
        agg["wall"] += agg2["wall"]
        agg["harness_errors"] += agg2["harness_errors"]
        agg["violations"].update(agg2["violations"])
        agg["cov"].update(agg2.get("cov", set()))
        for k, v in agg2["configs"].items():
            agg["configs"][k] = agg["configs"].get(k, 0) + v
    if agg["harness_errors"]:
        for h in agg["harness_errors"][:5]:
            print("HARNESS-ERROR", h[:3000])
        return 2

    known = batch.load_known()
    open_sigs = {k["signature"]: k for k in known if k["status"] == "open" and k.get("property") == prof.prop}
    exit_code = 0
    n_viol = 0
    unreproduced = 0
    results = list(agg["violations"].values())
    for v in pre_violations:
        results.append(v)
    for r in results:
        v = r["violation"]
        case = r.get("case")
        n_viol += 1
        if case is not None:
            def run_case(c, _replay=prof.replay_case):
                return _replay(c).get("violation")

            mcase, mv, used = minimise.minimise(case, v, run_case, budget=int(os.environ.get("GEOSIM_MIN_BUDGET", "300")), step_slots=prof.step_slots)
            path = batch.write_replay(prof.prop, r["seed"], mcase, mv,
                                      {"minimisation_executions": used, "original_steps": len(case.get("steps", []))})
            ok, out = batch.fresh_replay(prof.prop, path)
            if not ok:
                # the minimised case does not stand on its own; fall back to the case exactly as it ran
                path0 = batch.write_replay(prof.prop, r["seed"], case, v, {"minimisation": "discarded: the minimised "
                                           "case did not reproduce in a fresh interpreter"})
                ok0, out0 = batch.fresh_replay(prof.prop, path0)
                if not ok0:
                    # neither form stands on its own: not a finding that can be handed over. Other violations of this
                    # batch are still reported; if there is none, the batch ends as a harness error.
                    print(f"HARNESS-NOTE replay {path} did not reproduce in a fresh interpreter:\n{out[-600:]}")
                    unreproduced += 1
                    n_viol -= 1
                    continue
                path, mv = path0, v
            v = mv
        else:
            path = batch.write_replay(prof.prop, r.get("seed", 0), r.get("replay", {}), v)
        if v["signature"] in open_sigs:
            print(f"KNOWN-FINDING: property={prof.prop} {open_sigs[v['signature']]['what']} [replay={path}]")
            n_viol -= 1
            continue
        print(f"VIOLATION property={prof.prop} replay={path}")
        print(f"  seed={r.get('seed')} oracle={v['oracle']} op={v['op']} signature={v['signature']}")
        print(f"  {v['detail'][:600]}")
        exit_code = 1

    if unreproduced and exit_code == 0:
        print(f"HARNESS-ERROR {unreproduced} violation(s) found by the batch did not reproduce in a fresh interpreter")
        return 2
    wall = time.time() - t0
    if not args.no_evidence:
        rate = agg["runs"] / max(agg["wall"], 1e-9)
        coverage = {
            "evaluations": agg["runs"],
            "distinct_nontrivial": len(agg["nontrivial_hsigs"]),
            "rule": prof.rule,
            "samples": agg["samples"][:4] or [{"note": "no sample collected"}],
            "distinct_histories": len(agg["hsigs"]),
            "runs_per_hour": int(rate * 3600),
            "seeds_per_hour": int(rate * 3600),
            "first_seeds": agg["first_seeds"],
            "distinct_interleavings": {"measure": "distinct realised schedules (sequence of (client, quantum in "
                                                  "geometer lines) grants) among the pre-empted runs",
                                       "count": len(agg.get("sched_sigs", ()))},
            "workers": args.workers,
            "determinism_selftest": det,
            "exhaustive": False,
        }
        coverage.update(pre_info)
        if prof.evidence_extra:
            coverage.update(prof.evidence_extra(agg))
        batch.write_evidence(prof.prop, tier, args.seed, coverage, prof.assumptions, wall, n_viol)
    print(f"geosim {prof.prop}: {agg['runs']} runs in {agg['wall']:.1f}s ({agg['runs'] / max(agg['wall'], 1e-9):.0f}/s), "
          f"{len(agg['nontrivial_hsigs'])} distinct non-trivial histories, violations={n_viol}, exit={exit_code}")
    return exit_code


def do_replay(prof: Profile, args) -> int:
    body = json.load(open(args.replay, encoding="utf-8"))
    case = body["case"]
    exp = body.get("expected", {})
    cur = batch.source_hashes()
    if body.get("geometer_sha256") and body["geometer_sha256"] != cur and not args.quiet_replay:
        changed = sorted(k for k in cur if body["geometer_sha256"].get(k) != cur[k])
        print(f"note: geometer sources differ from the recording: {changed}")
    r = prof.replay_case(case)
    if r.get("harness_error"):
        print("HARNESS-ERROR", r["harness_error"])
        return 2
    v = r.get("violation")
    if v is None:
        print(f"NOT-REPRODUCED property={prof.prop} replay={args.replay}: the recorded case runs clean on this tree")
        return 0
    same = v.get("signature") == exp.get("signature")
    print(f"{'REPRODUCED' if same else 'DIFFERENT-VIOLATION'} property={prof.prop} signature={v.get('signature')}")
    print(f"  {v.get('detail', '')[:800]}")
    if not args.quiet_replay:
        print(f"VIOLATION property={prof.prop} replay={args.replay}")
    return 1
