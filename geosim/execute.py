"""Executors (SEQ golden / SEQ+faults / PREEMPT), program generation, oracles O1-O4 for the C12 profile."""
from __future__ import annotations

import random

import numpy as np

from geometer.base import Tensor, TensorDiagram

from . import seam, snapshot, world as W
from .catalogue import OPS

MAX_OUT = 4
MAX_POOL_ELEMS = 200_000
HARNESS_TIMEOUT = 120.0


class Violation(dict):
    """A property violation found by an oracle (plain dict so it pickles / serialises)."""


def mk_violation(prop, oracle, step, op, detail, **kw) -> Violation:
    v = Violation(prop=prop, oracle=oracle, step=step, op=op, detail=detail)
    v.update(kw)
    v["signature"] = signature(v)
    return v


def signature(v) -> str:
    if v["oracle"] == "O1":
        return f"O1|{v['op']}|{v.get('objcls', '?')}{v.get('path', '')}|{v.get('kind', '')}"
    return f"{v['oracle']}|{v['op']}|{v.get('kind', '')}"


# ---------------------------------------------------------------------------------------------------------------------
# step execution


class Outcome:
    __slots__ = ("status", "canon", "value", "lines", "ws", "wsk", "wsp", "fault_site", "evict_site", "exc", "env_changed",
                 "poke_damage")

    def __init__(self):
        self.status = "ok"      # ok | skipped | budget | faulted
        self.canon = None
        self.value = None
        self.lines = 0
        self.ws = None
        self.wsk = None
        self.wsp = None
        self.fault_site = None
        self.evict_site = None
        self.exc = None
        self.env_changed = None
        self.poke_damage = None


def env_state():
    """Process/thread-level state a query must leave alone (it changes later answers without touching any operand)."""
    import sys
    import warnings

    po = np.get_printoptions()
    return (tuple(sorted(np.geterr().items())), tuple(sorted((k, repr(v)) for k, v in po.items())),
            sys.getrecursionlimit(), len(warnings.filters))


def flatten_outputs(value) -> list:
    if isinstance(value, (Tensor, TensorDiagram)):
        return [value]
    if isinstance(value, (list, tuple)):
        return [x for x in value if isinstance(x, Tensor)][:MAX_OUT]
    return []


def exec_step(world: W.World, step: dict, ctx: seam.Ctx, fault=None, fp=False, evict=None, force_at=-1) -> Outcome:
    """Run one catalogue step against the world under the seam. Never raises (except harness bugs)."""
    out = Outcome()
    name = step["op"]
    if name == "$evict":
        W.evict_caches(step["p"]["which"])
        out.canon = ("s", "env", "evict")
        return out
    if name == "$poke":
        # the client edits an object it owns: a result that no step has used and that shares no memory with the
        # operands it was computed from (`r[i] = r[i] + 1`, Tensor.__setitem__ is the public mutator). The object
        # leaves the pool; nothing else -- operand, module constant, cache entry, later answer -- may notice.
        out.canon = ("s", "env", "poke")
        slot = step["args"][0]
        if not world.has(slot):
            out.status = "skipped"
            return out
        obj = world.get(slot)
        a = getattr(obj, "array", None)
        if step["p"].get("bad") and isinstance(a, np.ndarray) and a.ndim:
            # an assignment that cannot succeed (index out of range, value of the wrong shape): it must raise and
            # leave its target exactly as it was -- numpy's own item assignment does
            before = snapshot.snap(obj)
            try:
                if step["p"]["bad"] == "index":
                    obj[a.shape[0] + 3] = 0.5
                else:
                    obj[...] = np.full(tuple(k + 1 for k in a.shape), 0.5)
                raised = False
            except Exception:  # noqa: BLE001
                raised = True
            after = snapshot.snap(obj)
            if raised and after != before:
                d = [x for x in snapshot.diff(before, after) if x[1] != "fill"] or [("", "attr-value")]
                out.poke_damage = f"a failed Tensor.__setitem__ ({step['p']['bad']}) changed its target: {d[0][0]} {d[0][1]}"
            world.drop(slot)
            return out
        if isinstance(a, np.ndarray) and a.size and a.dtype.kind in "biufc" and a.flags.writeable:
            idx = tuple(int(x) for x in np.unravel_index(step["p"]["flat"] % a.size, a.shape))
            val = (not bool(a[idx])) if a.dtype.kind == "b" else a[idx] + 1
            try:
                obj[idx if idx else Ellipsis] = val
            except Exception:  # noqa: BLE001 -- classes whose __setitem__ wants another index form
                a[idx] = val
        world.drop(slot)
        return out
    try:
        args = [world.get(s) for s in step["args"]]
    except KeyError:
        out.status = "skipped"
        return out
    op = OPS[name]
    p = step.get("p") or {}
    if name not in NONFINITE_SAFE and any(_nonfinite(x) for x in args):
        # numpy's LAPACK (OpenBLAS gesdd) does not return for matrices with nan/inf entries: null_space, orth,
        # basis_matrix and everything built on them would hang the process. Operands with non-finite coordinates
        # are therefore only handed to operations that stay away from the decompositions.
        out.status = "skipped"
        return out
    if fault is not None:
        ctx.fault_at = fault["at"]
        ctx.fault_exc = (seam.SimInterrupt if fault["kind"] == "async_interrupt" else seam.SimMemoryError)(
            f"injected {fault['kind']} at step {step['i']} ordinal {fault['at']}")
    if evict is not None:
        ctx.evict_at = evict["at"]
        w = evict["which"]
        ctx.evict_fn = lambda: W.evict_caches(w)
    ctx.force_at = force_at
    env0 = env_state()
    if fp:
        # the user's `np.seterr(all="raise")`. Deliberately not a `with np.errstate` block of the harness: its exit
        # would put back whatever the step leaked and hide it.
        np.seterr(all="raise")
        env_fp = env_state()
    ctx.begin()
    try:
        r = op.fn(args, p)
        out.fault_site, out.evict_site = ctx.fault_site, ctx.evicted_site
        out.lines = ctx.end()
        out.value = r
    except seam.StepBudgetExceeded:
        out.lines = ctx.end()
        out.status = "budget"
        np.seterr(**dict(env0[0]))
        return out
    except BaseException as e:  # noqa: BLE001 -- every exception is an ordinary outcome of a step
        out.fault_site, out.evict_site = ctx.fault_site, ctx.evicted_site
        out.lines = ctx.end()
        if type(e) is MemoryError:
            out.status = "budget"
            np.seterr(**dict(env0[0]))
            return out
        out.value = e
        out.exc = e
    if ctx.trace_ws:
        out.ws = ctx.ws_ordinals
        out.wsk = ctx.ws_events
        out.wsp = ctx.ws_post
    if isinstance(out.exc, RecursionError):
        # how many lines run before the interpreter gives up depends on the depth of the caller's stack and on what
        # else the interpreter happens to have on it; neither the count nor positions inside such a step are part of
        # a repeatable history, so nothing is aimed into it
        out.lines = 0
        if ctx.trace_ws:
            out.ws, out.wsk, out.wsp = [], [], []
    env1 = env_state()
    if env1 != (env_fp if fp else env0):
        out.env_changed = [a for a, b in zip(("np.geterr", "np.get_printoptions", "sys.getrecursionlimit",
                                              "len(warnings.filters)"), zip(env_fp if fp else env0, env1))
                           if b[0] != b[1]]
    if env1 != env0:
        np.seterr(**dict(env0[0]))   # put the error state back so that the run can go on
    out.canon = snapshot.canon(out.value)
    if out.fault_site is not None or out.evict_site is not None or (fp and isinstance(out.exc, FloatingPointError)):
        # the faulted step's own outcome is unconstrained. A step that ran under np.errstate(all="raise") WITHOUT
        # hitting a FloatingPointError computed exactly what the fault-free run computes and stays constrained.
        out.status = "faulted"
    return out


def store_outputs(world: W.World, step: dict, out: Outcome) -> None:
    if out.exc is not None or out.status not in ("ok",):
        return
    vals = flatten_outputs(out.value)
    for slot, v in zip(step["out"], vals):
        if isinstance(v, Tensor) and v.array.size > MAX_POOL_ELEMS:
            continue   # results of this size are answers, not operands: snapshots of the pool must stay cheap
        world.put(slot, v, f"step{step['i']}:{step['op']}")


# ---------------------------------------------------------------------------------------------------------------------
# O1


def env_violation(out, step) -> Violation | None:
    if getattr(out, "poke_damage", None):
        return mk_violation("C12", "O1", step["i"], step["op"], out.poke_damage, objcls="target", path=".array",
                            kind="failed-assignment", where="operand/pool")
    if getattr(out, "env_changed", None):
        return mk_violation("C12", "O1", step["i"], step["op"], "process-wide state changed by the call and not "
                            f"restored: {out.env_changed}", objcls="process", path="." + ",".join(out.env_changed),
                            kind="env-state", where="process")
    return None


def o1_check(world: W.World, slots, step, op, full=False) -> Violation | None:
    bad = world.check(None if full else slots)
    for name, path, kind in bad:
        return mk_violation("C12", "O1", step, op, f"{name}{path}: {kind}", objcls=name.split(":", 1)[1], path=path,
                            kind=kind, where="operand/pool")
    for name, path, kind in W.check_globals():
        return mk_violation("C12", "O1", step, op, f"global {name}{path}: {kind}", objcls=name, path=path, kind=kind,
                            where="global")
    for name, path, kind in W.check_caches():
        return mk_violation("C12", "O1", step, op, f"cache {name}{path}: {kind}", objcls=name, path=path, kind=kind,
                            where="cache")
    return None


# ---------------------------------------------------------------------------------------------------------------------
# program generation == golden SEQ run


class Gen:
    def __init__(self, rng: random.Random, cfg: dict, world: W.World, n_pool: int):
        self.rng, self.cfg, self.world = rng, cfg, world
        self.next_slot = n_pool
        self.hot: list[int] = []
        live = sorted(world.slots)
        rng.shuffle(live)
        self.hot = live[: cfg["hot"]]
        self.names = sorted(OPS)
        self.weights = [OPS[n].weight for n in self.names]
        self.queue: list[dict] = []   # follow-up steps of a "twin query" (near-colliding variants of one query)
        self.want_poke = False
        self.labels: dict[int, int] = {}   # label of a queued step -> index it was emitted at
        self.next_label = 0

    def _pick_slot(self, cands: list[int]) -> int:
        rng = self.rng
        hot = [s for s in cands if s in self.hot]
        if hot and rng.random() < self.cfg["p_hot"]:
            return rng.choice(hot)
        return rng.choice(cands)

    def bind(self, op) -> list[int] | None:
        metas = self.world.metas
        dim = None
        fshape = None
        chosen = []
        for spec in op.args:
            cands = []
            for s in sorted(metas):
                m = metas[s]
                if not spec.ok(m):
                    continue
                if op.samedim and dim is not None and m.get("dim") is not None and m["dim"] != dim:
                    continue
                cands.append(s)
            if not cands:
                return None
            if fshape is not None and self.rng.random() < 0.8:
                good = [s for s in cands if metas[s]["fshape"] in ((), fshape) or not metas[s]["coll"]]
                if good:
                    cands = good
            s = self._pick_slot(cands)
            chosen.append(s)
            m = metas[s]
            if dim is None and m.get("dim") is not None:
                dim = m["dim"]
            if fshape is None and m["coll"]:
                fshape = m["fshape"]
        return chosen

    def next_step(self, i: int, history: list[dict]) -> dict:
        rng, cfg = self.rng, self.cfg
        client = rng.randrange(cfg["n_clients"])
        if self.queue:
            q = self.queue.pop(0)
            out = list(range(self.next_slot, self.next_slot + MAX_OUT))
            self.next_slot += MAX_OUT
            if "label" in q:
                self.labels[q["label"]] = i
            st = {"i": i, "c": q.get("c", client), "op": q["op"], "args": list(q["args"]), "p": q.get("p"), "out": out,
                  "mode": q.get("mode", "typed")}
            if "of" in q:
                st["of"] = q["of"]
            elif "of_label" in q:
                if q["of_label"] in self.labels:
                    st["of"] = self.labels[q["of_label"]]
                else:
                    st["mode"] = "typed"
            return st
        script = cfg.get("script") or []
        if i < len(script):
            sc = script[i]
            out = list(range(self.next_slot, self.next_slot + MAX_OUT))
            self.next_slot += MAX_OUT
            return {"i": i, "c": client, "op": sc["op"], "args": list(sc["args"]), "p": sc.get("p"), "out": out,
                    "mode": "typed"}
        if rng.random() < cfg["p_evict_step"]:
            return {"i": i, "c": client, "op": "$evict", "args": [], "p": {"which": rng.choice([1, 2, 3])}, "out": [],
                    "mode": "env"}
        force = self.want_poke and cfg.get("p_poke", 0.0) > 0 and rng.random() < 0.5
        self.want_poke = False
        if force or rng.random() < cfg.get("p_poke", 0.0):
            # (forced: the previous step produced a result that exists only because a call promised a copy)
            st = self.poke_step(i, client, history)
            if st is not None:
                return st
        queries = [h for h in history if h["mode"] != "env" and h.get("status") == "ok"]
        if queries and rng.random() < cfg["p_reask"]:
            h = rng.choice(queries)
            return {"i": i, "c": client, "op": h["op"], "args": list(h["args"]), "p": h.get("p"), "out": [],
                    "mode": "reask", "of": h.get("of", h["i"])}
        fuzzy = rng.random() < cfg["p_fuzzy"]
        for _ in range(40):
            name = rng.choices(self.names, self.weights)[0]
            op = OPS[name]
            if fuzzy:
                live = sorted(self.world.slots)
                args = [rng.choice(live) for _ in op.args]
            else:
                args = self.bind(op)
                if args is None:
                    continue
            p = None
            if op.params is not None:
                try:
                    p = op.params(rng, [self.world.metas[s] or {"shape": (), "fshape": ()} for s in args],
                                  [self.world.slots[s] for s in args])
                except Exception:  # noqa: BLE001 -- fuzzy binding may make params impossible
                    continue
            out = list(range(self.next_slot, self.next_slot + MAX_OUT))
            self.next_slot += MAX_OUT
            if not fuzzy and cfg["n_clients"] >= 2 and rng.random() < 0.2:
                # duet: another client runs the SAME operation (on operands of its own choice) right away; under
                # PREEMPT the two calls overlap line by line, which is what exposes call-local state kept in module-
                # or class-level variables
                args2 = self.bind(op)
                if args2 is not None:
                    p2 = p
                    if op.params is not None:
                        try:
                            p2 = op.params(rng, [self.world.metas[s_] or {"shape": (), "fshape": ()} for s_ in args2],
                                           [self.world.slots[s_] for s_ in args2])
                        except Exception:  # noqa: BLE001
                            p2 = None
                    if p2 is not None or op.params is None:
                        self.queue.append({"op": name, "args": args2, "p": p2,
                                           "c": (client + 1 + rng.randrange(cfg["n_clients"] - 1)) % cfg["n_clients"]})
            if name == "getitem" and p and isinstance(p.get("idx"), dict) and "nb" in p["idx"] and rng.random() < 0.7:
                # twin queries: anything keyed by the VALUE of an argument must not confuse equal-but-different
                # values: np.True_ == 1 and np.False_ == 0, yet a[np.True_] and a[1] are different questions
                twin = {"idx": int(p["idx"]["nb"])}
                lab = self.next_label
                self.next_label += 1
                self.queue.append({"op": "getitem", "args": args, "p": twin, "label": lab})
                self.queue.append({"op": "getitem", "args": args, "p": p, "mode": "reask", "of": i})
                self.queue.append({"op": "getitem", "args": args, "p": twin, "mode": "reask", "of_label": lab})
            return {"i": i, "c": client, "op": name, "args": args, "p": p, "out": out,
                    "mode": "fuzzy" if fuzzy else "typed"}
        return {"i": i, "c": client, "op": "props", "args": [sorted(self.world.slots)[0]], "p": None, "out": [],
                "mode": "typed"}

    # results that are process-wide objects by design: the cached epsilon/delta arrays, the module constants
    NO_POKE = ("eps", "delta", "aug_eps", "aug_delta", "const", "asarray", "asarray_c", "props", "repr",
               "infty_hyperplane")
    # constructors documented to copy their argument ("copy: If True (default), then the object is copied"): their
    # result is the caller's own even though it was made from one operand
    FRESH_BY_CONTRACT = ("reconstruct", "quadric_normalize", "quadric_from_tensor", "pointcoll_homogenize")

    def poke_step(self, i, client, history):
        """A `$poke` on a result that no step has used so far and that shares no memory with its own operands."""
        used = set()
        for h in history:
            used.update(h.get("args") or [])
        cands = []
        promised = []
        for h in history:
            if h.get("status") != "ok" or h["mode"] == "env" or h["op"] in self.NO_POKE or h["op"].startswith("u_"):
                continue
            for s_ in h.get("out") or []:
                if s_ in used or not self.world.has(s_):
                    continue
                o = self.world.slots[s_]
                a = getattr(o, "array", None)
                if not (isinstance(o, Tensor) and isinstance(a, np.ndarray) and a.size and a.dtype.kind in "biufc"):
                    continue
                # by design many results are views of their operands or of each other (indexing, vertices, components
                # of a degenerate quadric, copy(), copy=False, ...): a result is the caller's own only if it shares
                # memory with no other live object -- or comes from a constructor that promises a copy
                shares = False
                fresh = h["op"] in self.FRESH_BY_CONTRACT or (h["op"] == "getitem" and _advanced((h.get("p") or {}).get("idx")))
                for t_, x in self.world.slots.items():
                    if t_ == s_ or (fresh and t_ in h["args"]):
                        continue
                    for arr in _arrays_of(x):
                        if np.may_share_memory(a, arr):
                            shares = True
                            break
                    if shares:
                        break
                if not shares:
                    cands.append(s_)
                    if fresh:
                        promised.append(s_)
        if not cands:
            return None
        # results that exist only because some call promised a copy are the interesting ones to edit
        slot = self.rng.choice(promised) if promised and self.rng.random() < 0.6 else self.rng.choice(cands)
        p_ = {"flat": self.rng.randrange(1 << 16)}
        if self.rng.random() < 0.25:
            p_["bad"] = self.rng.choice(["index", "shape"])
        return {"i": i, "c": client, "op": "$poke", "args": [slot], "p": p_, "out": [], "mode": "env"}

    def after(self, step: dict, world: W.World) -> None:
        if step["op"] in self.FRESH_BY_CONTRACT or (step["op"] == "getitem" and _advanced((step.get("p") or {}).get("idx"))):
            self.want_poke = any(world.has(s) for s in step["out"])
        for s in step["out"]:
            if world.has(s) and self.rng.random() < 0.35:
                self.hot.append(s)
                if len(self.hot) > self.cfg["hot"] + 2:
                    self.hot.pop(0)


NONFINITE_SAFE = {"eq", "eq_s", "eq_list", "ufunc_eq", "repr", "is_zero", "u_is_multiple", "u_is_multiple_all",
                  "props", "copy", "copy_copy", "neg", "pt_neg", "mul_ts", "rmul_ts", "div_ts", "pt_mul_s", "pt_rmul_s",
                  "pt_div_s", "asarray", "asarray_c", "getitem", "pt_isinf", "pt_isreal", "normalized_array",
                  "u_is_scalar", "add_tt", "sub_tt", "radd_s", "rsub_s", "ufunc_add", "ufunc_neg", "ufunc_rmul",
                  "size_len", "iter", "aug_copy", "T", "transpose", "reconstruct", "reconstruct_nocopy"}


def _nonfinite(x, depth=0) -> bool:
    a = getattr(x, "array", None)
    if isinstance(a, np.ndarray):
        return a.dtype.kind in "fc" and a.size <= 1_000_000 and not bool(np.all(np.isfinite(a)))
    if isinstance(x, (list, tuple)) and depth < 2:
        return any(_nonfinite(y, depth + 1) for y in x)
    return False


def post_of(h: dict, o: int):
    """ordinal right after the write line that began at ordinal `o` of step history entry `h` (None if unknown)"""
    for s_, p_ in h.get("wsp") or []:
        if s_ == o:
            return p_
    after = [w for w in (h.get("ws") or []) if w > o]
    return after[0] if after else None


def _advanced(j) -> bool:
    """an (encoded) index with a mask or an integer array in it: numpy's advanced indexing, whose result is a copy the
    caller owns -- unlike slices and integers, which give views"""
    if isinstance(j, dict):
        if "a" in j or "f" in j or "nb" in j:
            return True
        if "t" in j:
            return any(_advanced(x) for x in j["t"])
    return False


def _arrays_of(x, depth=0):
    """coordinate arrays reachable from an operand (its own, cached subspaces, elements of a list argument)"""
    if isinstance(x, np.ndarray):
        yield x
    elif isinstance(x, Tensor) and depth < 3:
        for v in x.__dict__.values():
            if isinstance(v, (np.ndarray, Tensor)):
                yield from _arrays_of(v, depth + 1)
    elif isinstance(x, (list, tuple)) and depth < 2:
        for v in x:
            yield from _arrays_of(v, depth + 1)


def new_ctx(trace_ws=False) -> seam.Ctx:
    ctx = seam.Ctx()
    ctx.trace_ws = trace_ws
    return ctx


def build_world(case: dict) -> tuple[W.World, list[str]]:
    W.canonical_start(case["cfg"].get("warm", []))
    world = W.World()
    errs = world.build(case["recipes"])
    return world, errs


def golden_run(case: dict, rng: random.Random | None, stats: dict) -> tuple[list[dict], Violation | None]:
    """Fault-free SEQ execution. With rng: generates case['steps'] while executing. Returns (history, violation).

    history[i] = step dict + {"status","ans"(canon),"lines","ws"}. O1 after every step, O2 on re-asks and in a
    final re-ask pass.
    """
    cfg = case["cfg"]
    world, errs = build_world(case)
    case.setdefault("build_errors", errs)
    ctx = new_ctx(trace_ws=True)
    seam.set_ctx(ctx)
    gen = Gen(rng, cfg, world, len(case["recipes"])) if rng is not None else None
    steps = case.setdefault("steps", [])
    history: list[dict] = []
    v = o1_check(world, [], -1, "$build", full=True)
    if v is not None:
        return history, v
    first_answer: dict[int, tuple] = {}
    n = cfg["n_steps"] if gen is not None else len(steps)
    removed = set(case.get("removed", []))
    for i in range(n):
        if gen is not None:
            step = gen.next_step(i, history)
            steps.append(step)
        else:
            step = steps[i]
        h = dict(step)
        if step["i"] in removed:
            h["status"] = "removed"
            history.append(h)
            continue
        out = exec_step(world, step, ctx)
        h["status"], h["ans"], h["lines"], h["ws"], h["wsk"] = out.status, out.canon, out.lines, out.ws, out.wsk
        h["wsp"] = out.wsp
        history.append(h)
        stats["steps"] += 1
        stats["lines"] += out.lines
        if out.status == "ok":
            stats["ok_by_op"][step["op"]] = stats["ok_by_op"].get(step["op"], 0) + (0 if out.exc is not None else 1)
            stats["exc_by_op"][step["op"]] = stats["exc_by_op"].get(step["op"], 0) + (1 if out.exc is not None else 0)
            if out.exc is not None:
                stats["domain_exc"] += 1
            store_outputs(world, step, out)
            if gen is not None:
                gen.after(step, world)
        full = (i % 4 == 3) or len(world.slots) <= 40 or step["op"] == "$poke"
        v = env_violation(out, step) or o1_check(world, step["args"], step["i"], step["op"], full=full)
        if v is not None:
            return history, v
        if step["mode"] == "reask" and out.status == "ok":
            ref = next((x for x in history if x["i"] == step["of"]), None)
            if ref is not None and ref.get("status") == "ok":
                stats["reasks"] += 1
                v = compare_answers("O2", ref["ans"], out.canon, step, stats, first=ref["i"])
                if v is not None:
                    return history, v
    # final re-ask pass (O2): every query again, on the same live objects, after everything else has happened
    v = reask_pass(world, history, ctx, stats, "O2")
    if v is not None:
        return history, v
    v = o1_check(world, [], n, "$final", full=True)
    return history, v


def reask_pass(world, history, ctx, stats, oracle) -> Violation | None:
    for h in history:
        if h.get("status") != "ok" or h["mode"] == "env":
            continue
        out = exec_step(world, h, ctx)
        stats["lines"] += out.lines
        if out.status != "ok":
            continue
        stats["reasks"] += 1
        v = compare_answers(oracle, h["ans"], out.canon, h, stats, first=h["i"], final=True)
        if v is not None:
            return v
        v = o1_check(world, h["args"], h["i"], h["op"])
        if v is not None:
            v["detail"] += " (during final re-ask pass)"
            return v
    return None


def compare_answers(oracle, ref, got, step, stats, first=None, final=False) -> Violation | None:
    if ref == got:
        return None
    if snapshot.noise_only(ref, got):
        stats["numeric_noise"] += 1
        return None
    if snapshot.projective_noise(ref, got):
        stats["representative_noise"] = stats.get("representative_noise", 0) + 1
        return None
    kind = "answer-changed"
    if ref[0] == "exc" or got[0] == "exc":
        kind = "outcome-changed"
    return mk_violation(
        "C12", oracle, step["i"], step["op"],
        f"{step['op']}{step['args']} first answered {snapshot.short(ref)} (step {first}), "
        f"{'final re-ask' if final else 'later'} answered {snapshot.short(got)}", kind=kind)


# ---------------------------------------------------------------------------------------------------------------------
# fault plans


def gen_plan(rng: random.Random, cfg: dict, history: list[dict], config: str) -> dict:
    """config in: seq_env | seq_async | preempt | preempt_all"""
    plan = {"exec": "preempt" if config.startswith("preempt") else "seq", "config": config, "faults": [], "fp": [],
            "evict_mid": [], "sched_seed": rng.getrandbits(48), "quantum_mean": cfg["quantum_mean"]}
    cand = [h for h in history if h.get("status") == "ok" and h["mode"] != "env" and h.get("lines", 0) > 0]
    if not cand:
        return plan
    kinds = list(cfg["fault_kinds"])
    if config == "seq_env":
        kinds = [k for k in kinds if k in ("fp_trap", "cache_evict")] or ["cache_evict"]
    elif config == "seq_async":
        kinds = [k for k in kinds if k.startswith("async")] or ["async_interrupt"]
    elif config == "preempt":
        kinds = []
    n = cfg["n_faults"] if kinds else 0
    if config in ("seq_env", "seq_async", "preempt_all") and n == 0:
        n = 1
    used = set()
    # directed part: one write-site of the working tree is this run's target; if the golden run reached it, faults
    # and forced switches are aimed right before and right after it
    sites = sorted(seam.WRITE_SITES)
    target = sites[rng.randrange(len(sites))] if sites else None
    hits = [(h, o) for h in cand for (o, key) in (h.get("wsk") or []) if tuple(key) == target]
    plan["target_site"] = seam.site_str(target) if target else None
    plan["switch_at"] = []
    if hits and plan["exec"] == "preempt":
        for h, o in rng.sample(hits, min(2, len(hits))):
            after = [w for w in (h.get("ws") or []) if w > o]
            plan["switch_at"].append({"step": h["i"], "at": after[0] if after and rng.random() < 0.7 else o})
    for _ in range(n):
        aimed = None
        if hits and rng.random() < 0.6:
            h, o = rng.choice(hits)
            after = [w for w in (h.get("ws") or []) if w > o]
            aimed = after[0] if after and rng.random() < 0.5 else o
        else:
            h = rng.choice(cand)
        if h["i"] in used:
            continue
        used.add(h["i"])
        k = rng.choice(kinds)
        ws = h.get("ws") or []
        at = aimed if aimed is not None else (
            rng.choice(ws) if ws and rng.random() < cfg["p_ws_aim"] else rng.randint(1, h["lines"]))
        if k == "fp_trap":
            # "the user runs with np.seterr(all='raise')" is a mode, not a point event: a third of the steps get it
            plan["fp"] = sorted(set(plan["fp"]) | {x["i"] for x in cand if rng.random() < 0.33} | {h["i"]})
        elif k == "cache_evict":
            if plan["exec"] == "preempt":
                continue  # a mid-step eviction would also hit the other clients' in-flight operations
            plan["evict_mid"].append({"step": h["i"], "at": at, "which": rng.choice([1, 2, 3])})
        else:
            plan["faults"].append({"step": h["i"], "kind": k, "at": at})
    return plan


# ---------------------------------------------------------------------------------------------------------------------
# SEQ + faults


def faulted_seq_run(case: dict, plan: dict, golden: list[dict], stats: dict):
    """Returns (violation | None, history of the faulted execution)."""
    world, _ = build_world(case)
    ctx = new_ctx()
    seam.set_ctx(ctx)
    faults = {f["step"]: f for f in plan["faults"]}
    evicts = {e["step"]: e for e in plan["evict_mid"]}
    fps = set(plan["fp"])
    hist2 = []
    removed = set(case.get("removed", []))
    for g in golden:
        step = g
        h = {k: g[k] for k in ("i", "c", "op", "args", "p", "out", "mode") if k in g}
        if g["i"] in removed or g.get("status") == "removed":
            h["status"] = "removed"
            hist2.append(h)
            continue
        out = exec_step(world, step, ctx, fault=faults.get(g["i"]), fp=g["i"] in fps, evict=evicts.get(g["i"]))
        stats["steps"] += 1
        stats["lines"] += out.lines
        note_faults(stats, out, g["i"] in fps, g["i"] in faults, g["i"] in evicts)
        h["status"], h["ans"] = out.status, out.canon
        hist2.append(h)
        if out.status == "ok":
            store_outputs(world, step, out)
        v = env_violation(out, step) or o1_check(world, step["args"], g["i"], g["op"], full=True)
        if v is not None:
            v["detail"] += fault_note(out, g["i"] in fps)
            return v, hist2
        if out.status == "ok" and g.get("status") == "ok":
            v = compare_answers("O3", g["ans"], out.canon, step, stats, first=g["i"])
            if v is not None:
                v["detail"] = "under faults (SEQ): " + v["detail"]
                return v, hist2
    return post_fault_checks(world, hist2, golden, ctx, stats), hist2


def note_faults(stats, out, fp, had_fault, had_evict):
    f = stats["faults_fired"]
    if out.fault_site is not None:
        kind = "async_memerr" if isinstance(out.exc, seam.SimMemoryError) else "async_interrupt"
        if out.exc is None or not isinstance(out.exc, (seam.SimInterrupt, seam.SimMemoryError)):
            f["async_swallowed"] = f.get("async_swallowed", 0) + 1
        f[kind] = f.get(kind, 0) + 1
        stats["fault_sites"][seam.site_str(out.fault_site)] = stats["fault_sites"].get(
            seam.site_str(out.fault_site), 0) + 1
    elif had_fault:
        f["async_not_reached"] = f.get("async_not_reached", 0) + 1
    if fp:
        f["fp_trap"] = f.get("fp_trap", 0) + 1
        if isinstance(out.exc, FloatingPointError):
            f["fp_trap_raised"] = f.get("fp_trap_raised", 0) + 1
    if out.evict_site is not None:
        f["cache_evict_mid"] = f.get("cache_evict_mid", 0) + 1
    elif had_evict:
        f["evict_not_reached"] = f.get("evict_not_reached", 0) + 1


def fault_note(out, fp) -> str:
    s = ""
    if out.fault_site is not None:
        s += f" [after injected async exception at {seam.site_str(out.fault_site)}]"
    if out.evict_site is not None:
        s += f" [after mid-step cache eviction at {seam.site_str(out.evict_site)}]"
    if fp:
        s += " [step ran under np.errstate(all='raise')]"
    return s


def post_fault_checks(world, hist2, golden, ctx, stats) -> Violation | None:
    """O4: after the last fault everything is back to the fault-free standard."""
    # re-ask every step that completed un-faulted, compare with the golden answer
    for h, g in zip(hist2, golden):
        if h.get("status") != "ok" or g.get("status") != "ok" or h["mode"] == "env":
            continue
        out = exec_step(world, h, ctx)
        stats["lines"] += out.lines
        if out.status != "ok":
            continue
        stats["reasks"] += 1
        v = compare_answers("O4", g["ans"], out.canon, h, stats, first=g["i"], final=True)
        if v is not None:
            v["detail"] = "after faults: " + v["detail"]
            return v
    v = o1_check(world, [], len(golden), "$final", full=True)
    if v is not None:
        return v
    # constructing epsilon/delta again yields the definition, whatever happened to the caches
    from geometer.base import KroneckerDelta, LeviCivitaTensor

    for n in (2, 3, 4):
        for cov in (True, False):
            e = LeviCivitaTensor(n, cov)
            if not np.array_equal(e.array, W.eps_ref(n)) or e.tensor_shape != ((n, 0) if cov else (0, n)):
                return mk_violation("C12", "O4", len(golden), "LeviCivitaTensor", f"epsilon({n}) wrong after faults",
                                    kind="cache-recovery")
    for n, p in ((2, 2), (3, 2), (3, 3)):
        d = KroneckerDelta(n, p)
        if not np.array_equal(d.array, W.delta_ref(n, p)):
            return mk_violation("C12", "O4", len(golden), "KroneckerDelta", f"delta({n},{p}) wrong after faults",
                                kind="cache-recovery")
    return o1_check(world, [], len(golden), "$final", full=False)


# ---------------------------------------------------------------------------------------------------------------------
# PREEMPT


def preempt_run(case: dict, plan: dict, golden: list[dict], stats: dict):
    """Returns (violation | None, history of the pre-empted execution)."""
    from . import sched

    world, _ = build_world(case)
    cfg = case["cfg"]
    removed = set(case.get("removed", []))
    faults = {f["step"]: f for f in plan["faults"]}
    evicts = {e["step"]: e for e in plan["evict_mid"]}
    fps = set(plan["fp"])
    dec = sched.Decisions(plan["sched_seed"], plan.get("quantum_mean", 30), replay=plan.get("grants"))
    client_steps: dict[int, list] = {c: [] for c in range(cfg["n_clients"])}
    producer: dict[int, int] = {}
    for g in golden:
        if g["i"] in removed or g.get("status") == "removed":
            continue
        client_steps[g["c"] % cfg["n_clients"]].append(g)
        for s in g.get("out", []):
            producer[s] = g["i"]
    done_steps: set[int] = set()
    results: dict[int, Outcome] = {}

    forced = {x["step"]: x["at"] for x in plan.get("switch_at", [])}

    def exec_fn(g, ctx):
        out = exec_step(world, g, ctx, fault=faults.get(g["i"]), fp=g["i"] in fps, evict=evicts.get(g["i"]),
                        force_at=forced.get(g["i"], -1))
        if out.status == "ok":
            store_outputs(world, g, out)
        results[g["i"]] = out
        done_steps.add(g["i"])
        return out

    def ready_fn(g, any_mid) -> bool:
        if g["op"] == "$evict" and any_mid:
            return False  # eviction models a fresh process / other first-use order: only between operations
        for s in g["args"]:
            if not world.has(s) and s in producer and producer[s] not in done_steps and producer[s] != g["i"]:
                return False
        return True

    def on_entry(now, inflight, cl):
        slots = set()
        for x in inflight:
            slots.update(x.cur["args"])
        for g, _out in now:
            slots.update(g["args"])
        culprit = now[0][0] if now else (cl.cur or cl.steps[min(cl.pos, len(cl.steps) - 1)])
        v = o1_check(world, sorted(slots), culprit["i"], culprit["op"], full=bool(now))
        if v is not None:
            mid = [f"client{x.cid}:{x.cur['op']}@line{x.ctx.n}({seam.site_str(x.ctx.last_site)})"
                   for x in inflight if x.midstep]
            v["detail"] += f" [PREEMPT; suspended mid-operation: {mid}]" if mid else " [PREEMPT]"
            return v
        for g, out in now:
            i = g["i"]
            v = env_violation(out, g)
            if v is not None:
                return v
            stats["steps"] += 1
            stats["lines"] += out.lines
            note_faults(stats, out, i in fps, i in faults, i in evicts)
            if out.status == "ok" and g.get("status") == "ok":
                v = compare_answers("O3", g["ans"], out.canon, g, stats, first=i)
                if v is not None:
                    v["detail"] = "under PREEMPT schedule: " + v["detail"]
                    return v
        return None

    try:
        violation = sched.run(client_steps, exec_fn, ready_fn, on_entry, dec, stats)
    finally:
        plan["grants_realised"] = dec.record
    hist2 = []
    for g in golden:
        h = {k: g[k] for k in ("i", "c", "op", "args", "p", "out", "mode") if k in g}
        r = results.get(g["i"])
        h["status"] = r.status if r else "removed"
        h["ans"] = r.canon if r else None
        hist2.append(h)
    if violation is not None:
        return violation, hist2
    ctx = new_ctx()
    seam.set_ctx(ctx)
    return post_fault_checks(world, hist2, golden, ctx, stats), hist2
