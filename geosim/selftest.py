"""Self-tests: determinism (same seed -> same event-log digest across fresh interpreters, hash seeds, worker counts
and positions in a worker's sequence) and sensitivity (mutant corpus)."""
from __future__ import annotations

import concurrent.futures as cf
import json
import multiprocessing as mp
import os
import subprocess
import sys
import time

from . import batch

VERIF = batch.VERIF


def run_digest(prof, seed):
    r = prof.run_seed(seed, False)
    return seed, {"g": r.get("golden_digest"), "f": r.get("faulted_digest"), "c": r.get("config"),
                  "v": (r.get("violation") or {}).get("signature"), "h": bool(r.get("harness_error"))}


def _digest_entry(args):
    from . import profiles

    prop, seed = args
    return run_digest(profiles.PROFILES[prop], seed)


def print_digests(prof, args) -> int:
    n = args.digest_seeds
    gen = batch.seeds_for(args.seed)
    seeds = [next(gen) for _ in range(n)]
    if os.environ.get("GEOSIM_REVERSE") == "1":
        seeds = seeds[::-1]  # different position within a worker's sequence
    junk = [bytearray(1000 + 37 * i) for i in range(int(os.environ.get("GEOSIM_PREALLOC", "0")))]  # noqa: F841
    out = {}
    if args.workers <= 1:
        for s in seeds:
            k, d = run_digest(prof, s)
            out[str(k)] = d
    else:
        with cf.ProcessPoolExecutor(max_workers=args.workers, mp_context=mp.get_context("fork")) as ex:
            for k, d in ex.map(_digest_entry, [(prof.prop, s) for s in seeds]):
                out[str(k)] = d
    print("DIGESTS " + json.dumps(out, sort_keys=True))
    return 0


def _spawn(prop, seed, n, workers, hashseed, reverse, prealloc):
    env = dict(os.environ)
    env.pop("GEOSIM_CHILD", None)
    env.update({"GEOSIM_HASHSEED": str(hashseed), "GEOSIM_REVERSE": "1" if reverse else "0",
                "GEOSIM_PREALLOC": str(prealloc)})
    cmd = [sys.executable, os.path.join(VERIF, "check.py"), prop, "--seed", str(seed), "--digest-seeds", str(n),
           "--workers", str(workers)]
    return subprocess.Popen(cmd, env=env, stdout=subprocess.PIPE, stderr=subprocess.PIPE, text=True)


def determinism(prop: str, seed: int, n: int, workers: int) -> dict:
    """Each of n seeds runs in two fresh interpreters: (hash seed 0, 1 worker, forward order) and
    (hash seed 4242, many workers, reverse order, extra allocations first). Digests must be identical."""
    t0 = time.time()
    a = _spawn(prop, seed, n, 1 if n <= 16 else max(2, workers // 2), 0, False, 0)
    b = _spawn(prop, seed, n, max(2, workers // 2), 4242, True, 5000)
    outs = []
    for p in (a, b):
        try:
            so, se = p.communicate(timeout=1200)
        except subprocess.TimeoutExpired:
            p.kill()
            return {"ok": False, "detail": "determinism subprocess timed out", "seeds": n}
        line = [x for x in so.splitlines() if x.startswith("DIGESTS ")]
        if p.returncode != 0 or not line:
            return {"ok": False, "detail": f"determinism subprocess failed rc={p.returncode}: {(so + se)[-1500:]}",
                    "seeds": n}
        outs.append(json.loads(line[0][8:]))
    diff = [k for k in outs[0] if outs[0][k] != outs[1].get(k)]
    herr = [k for k in outs[0] if outs[0][k].get("h") or outs[1][k].get("h")]
    ok = not diff and not herr and len(outs[0]) == n
    return {"ok": ok, "seeds": n, "mismatching_seeds": diff[:5], "harness_errors": herr[:5],
            "detail": "" if ok else f"digest mismatch for seeds {diff[:5]} / harness errors {herr[:5]}",
            "configurations": "fresh interpreters: PYTHONHASHSEED 0 vs 4242, different worker counts, forward vs reverse "
                              "seed order, 0 vs 5000 preceding allocations",
            "wall_s": round(time.time() - t0, 1)}


def main(args) -> int:
    from . import sensitivity

    return sensitivity.main(args)
