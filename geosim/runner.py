"""One seeded run = golden SEQ history (+ one faulted / pre-empted re-execution); batches on 16 processes."""
from __future__ import annotations

import faulthandler
import hashlib
import json
import os
import random
import sys
import time
import traceback

import numpy as np

from . import execute as X
from . import program, seam, snapshot, world as W
from .catalogue import OPS

CONFIGS = ["seq_env", "seq_async", "preempt", "preempt_all"]


def _fp_noop(kind, flag):
    """numpy floating point error handler of the simulated processes: a distinctive, non-default error state
    ('call' with a no-op) so that a library call that changes the state and does not restore it is noticed"""
    return None


def new_stats() -> dict:
    return {"steps": 0, "lines": 0, "reasks": 0, "numeric_noise": 0, "domain_exc": 0, "ok_by_op": {}, "exc_by_op": {},
            "faults_fired": {}, "fault_sites": {}, "switch_sites": {}, "preemptions": 0}


_ready = False


def worker_init() -> None:
    global _ready
    if _ready:
        return
    np.seterrcall(_fp_noop)
    np.seterr(all="call")
    import warnings

    warnings.simplefilter("ignore")
    seam.install()
    W.init_globals()
    _ready = True


def make_case(seed: int, profile: str = "c12") -> tuple[dict, random.Random]:
    rng = random.Random(seed)
    cfg = program.make_cfg(rng, profile)
    recipes = program.gen_pool(rng, cfg)
    return {"version": 1, "property": "C12", "seed": seed, "cfg": cfg, "recipes": recipes}, rng


def history_digest(hist) -> str:
    h = hashlib.blake2b(digest_size=10)
    for x in hist:
        h.update(repr((x["i"], x.get("status"), snapshot.digest(x.get("ans")))).encode())
    return h.hexdigest()


def signature_of_history(case, hist) -> str:
    """Distinctness measure: sequence of (client, op, operand classes, outcome class)."""
    h = hashlib.blake2b(digest_size=10)
    for x in hist:
        a = x.get("ans")
        oc = a[1] if a and a[0] in ("exc", "T") else (a[0] if a else None)
        h.update(repr((x["c"], x["op"], len(x["args"]), x.get("status"), oc)).encode())
    return h.hexdigest()


def nontrivial(hist) -> bool:
    """>= 2 executed steps touch a common object."""
    seen: dict[int, int] = {}
    for x in hist:
        if x.get("status") != "ok":
            continue
        for s in set(x["args"]):
            seen[s] = seen.get(s, 0) + 1
            if seen[s] >= 2:
                return True
    return False


VARIANTS = ["memerr_pre", "memerr_post", "int_pre", "int_post", "switch_pre", "switch_post", "duet_pre", "duet_post"]
DUET2 = ["duet2_1", "duet2_2", "duet2_3"]   # thorough tier only


def duet_case(rng, case, history, site, variant, stats, want_op=None):
    """Directed concurrency case: the step that reaches `site` is paused right before / after that write, a SECOND
    client then runs one complete call of the SAME operation on other operands of the pool, then the first resumes.
    This is the schedule that exposes call-local state kept in module- or class-level variables.
    Returns (case, history, plan) or None."""
    site = tuple(site)
    hits = []
    for h in history:
        if h.get("status") != "ok" or h["op"] not in OPS:
            continue
        for o, key in (h.get("wsk") or []):
            if tuple(key) == site:
                hits.append((h, o))
                break
    if not hits:
        return None
    # a site inside a helper (is_multiple, _get_index_mapping, ...) is reached by many different operations; which of
    # them is doubled is part of the schedule space, so each (program, variant) draws its own
    rng = random.Random(f"duet|{case.get('seed')}|{site}|{variant}")
    by_op = {}
    for h_, o_ in hits:
        by_op.setdefault(h_["op"], (h_, o_))
    if want_op is not None and want_op not in by_op:
        return None
    h, o = by_op[want_op if want_op is not None else rng.choice(sorted(by_op))]
    # ... and with several operations to choose from, the second client sometimes runs ANOTHER operation that passes
    # the same site (its own call from the golden history, whose operands exist before the first one starts)
    cross = None
    produced_before = {x for h_ in history if h_["i"] < h["i"] for x in (h_.get("out") or [])}
    others = [by_op[k][0] for k in sorted(by_op) if k != h["op"] and
              all(a_ < len(case["recipes"]) or a_ in produced_before for a_ in by_op[k][0]["args"])]
    if others and rng.random() < 0.35:
        cross = rng.choice(others)
    op = OPS.get(h["op"])
    if op is None:
        return None
    world, _ = X.build_world(case)
    n_rec = len(case["recipes"])
    metas = {s_: m for s_, m in world.metas.items() if s_ < n_rec}
    # bring the scratch world to the state right before the doubled step (its operands may be results of earlier
    # steps), so that candidate second calls can be tried out
    ctx_ = X.new_ctx()
    removed_ = set(case.get("removed", []))
    for st_ in case["steps"]:
        if st_["i"] >= h["i"]:
            break
        if st_["i"] in removed_:
            continue
        out_ = X.exec_step(world, st_, ctx_)
        if out_.status == "ok":
            X.store_outputs(world, st_, out_)
    origs = [h["args"][k] if k < len(h["args"]) else None for k in range(len(op.args))]

    def differs(s_, orig):
        # an alias or a copy of the original operand would make both clients compute the same numbers, and state
        # leaking from one call into the other would be invisible
        a_, b_ = world.slots.get(orig), world.slots.get(s_)
        try:
            return not (a_.shape == b_.shape and np.array_equal(np.asarray(a_.array), np.asarray(b_.array)))
        except Exception:  # noqa: BLE001
            return s_ != orig

    def same_kind(s_, orig):
        # same class, shape and dtype: whatever the library keys hidden state on, the two calls collide on it
        a_, b_ = world.slots.get(orig), world.slots.get(s_)
        try:
            return type(a_) is type(b_) and a_.shape == b_.shape and a_.array.dtype == b_.array.dtype
        except Exception:  # noqa: BLE001
            return False

    pools = []
    for k, spec in enumerate(op.args):
        orig = origs[k]
        m0 = world.metas.get(orig) if orig in world.metas else None
        cands = [s_ for s_ in sorted(metas) if spec.ok(metas[s_]) and
                 (m0 is None or metas[s_].get("dim") == m0.get("dim"))]
        if not cands:
            return None
        other = [s_ for s_ in cands if s_ != orig and differs(s_, orig)]
        alike = [s_ for s_ in other if same_kind(s_, orig)]
        x_ = world.slots.get(orig)
        can_twin = orig is not None and orig < n_rec and isinstance(getattr(x_, "array", None), np.ndarray) \
            and x_.array.dtype.kind in "iufc" and x_.array.size > 0   # (a twin is a recipe: only of pool objects)
        pools.append((cands, other, alike, can_twin))

    def near(k):
        """operand k replaced by one of the same class, shape and dtype with other coordinates"""
        cands, other, alike, can_twin = pools[k]
        if alike and (not can_twin or rng.random() < 0.5):
            return rng.choice(alike)
        if can_twin:
            return ("twin", origs[k])
        return rng.choice(other or [s_ for s_ in cands if s_ != origs[k]] or cands)

    def selection():
        mode = rng.choice(["one", "one", "all", "other", "diag", "diag"]) if op.args else "other"
        if mode == "diag":
            # the same operand (or a twin of it) in every position that accepts it: comparisons, incidence and
            # dependence tests then answer the opposite of what they answer for operands in general position
            j0 = rng.randrange(len(op.args))
            a0 = origs[j0] if origs[j0] is not None and rng.random() < 0.5 else near(j0)
            m_a0 = world.metas.get(a0) if not isinstance(a0, tuple) else world.metas.get(a0[1])
            return [a0 if (m_a0 is not None and op.args[j].ok(m_a0)) else (origs[j] if origs[j] is not None else near(j))
                    for j in range(len(op.args))]
        if mode == "one":
            # the same call with ONE operand exchanged: same shapes and dtypes everywhere, most likely another answer
            k = rng.randrange(len(op.args))
            return [near(j) if j == k else (origs[j] if origs[j] is not None else near(j)) for j in range(len(op.args))]
        if mode == "all":
            return [near(j) for j in range(len(op.args))]
        return [rng.choice(pools[j][1] or [s_ for s_ in pools[j][0] if s_ != origs[j]] or pools[j][0])
                for j in range(len(op.args))]

    def trial(sel):
        """canonical answer of the second call when run alone, or None when it cannot be computed here"""
        objs = []
        for a_ in sel:
            try:
                objs.append(W._b_twin(world, a_[1]) if isinstance(a_, tuple) else world.get(a_))
            except Exception:  # noqa: BLE001  (void slot, an operand produced by an earlier step, no twin)
                return None
        if h["op"] not in X.NONFINITE_SAFE and any(X._nonfinite(x) for x in objs):
            return None   # see execute.exec_step: decompositions do not return for nan/inf input
        try:
            return snapshot.canon(op.fn(objs, h.get("p")))
        except Exception as e:  # noqa: BLE001
            return snapshot.canon(e)

    # state that leaks from one call into the other is invisible when both calls compute the same thing, and calls on
    # operands of other shapes do not collide on state keyed by shape: prefer a second call whose operands are all of
    # the same class/shape/dtype as the first one's and whose answer (run alone) differs from the first one's
    def alike_all(sel_):
        def ok_(j, a_):
            if isinstance(a_, tuple):
                a_ = a_[1]
            return a_ == origs[j] or a_ in pools[j][2] or same_kind(a_, origs[j])

        return all(ok_(j, a_) for j, a_ in enumerate(sel_))

    best = None
    for _ in range(6):
        cand_sel = selection()
        ans = trial(cand_sel)
        score = 2 * alike_all(cand_sel) + (ans is not None and ans != h.get("ans"))
        if best is None or score > best[0]:
            best = (score, cand_sel)
        if score == 3:
            break
    sel = best[1]
    twins = {}
    for a_ in sel:
        if isinstance(a_, tuple) and a_[1] not in twins:
            twins[a_[1]] = ("twin", len(twins))
    args2 = [twins[a_[1]] if isinstance(a_, tuple) else a_ for a_ in sel]
    n_twin = len(twins)
    case = json.loads(json.dumps(strip_case(case), default=batch_default))
    new_i = max(s_["i"] for s_ in case["steps"]) + 1
    top = max([x for s_ in case["steps"] for x in s_.get("out", [])] + [n_rec]) + 1
    for orig, tag in twins.items():
        case["recipes"].append({"slot": top + tag[1], "k": "twin", "a": [orig]})
    args2 = [top + a_[1] if isinstance(a_, tuple) else a_ for a_ in args2]
    top += n_twin
    for s_ in case["steps"]:
        s_["c"] = 0
    if cross is not None:
        case["steps"].append({"i": new_i, "c": 1, "op": cross["op"], "args": list(cross["args"]), "p": cross.get("p"),
                              "out": list(range(top, top + X.MAX_OUT)), "mode": "typed"})
    else:
        case["steps"].append({"i": new_i, "c": 1, "op": h["op"], "args": args2, "p": h.get("p"),
                              "out": list(range(top, top + X.MAX_OUT)), "mode": "typed"})
    case["cfg"]["n_clients"] = 2
    hist2, v = X.golden_run(case, None, stats)
    if v is not None:
        return None
    h2 = next((x for x in hist2 if x["i"] == h["i"]), None)
    if h2 is None or h2.get("status") != "ok":
        return None
    post = X.post_of(h2, o)   # right after THIS write line (inner write lines of its callees complete earlier)
    at = o if variant.endswith("_pre") or post is None else post
    before = sum(1 for x in hist2 if x["i"] < h["i"] and x.get("status") != "removed")
    grants = [[0, 0]] * before + [[0, 0], [1, 0]]
    switches = [{"step": h["i"], "at": at}]
    if variant.startswith("duet2"):
        # two switches: the first client is stopped right BEFORE the write; the second one runs the same code up to
        # right after its k-th write behind that site and is stopped there; the first runs to the end of its call;
        # the second resumes. (Test-then-set of an ownership flag, double-checked initialisation: every schedule
        # with a single switch is clean.)
        hb = hist2[-1]
        ob = next((o_ for o_, key in (hb.get("wsk") or []) if tuple(key) == site), None)
        if hb.get("status") != "ok" or ob is None:
            return None
        after_b = [w for w in (hb.get("ws") or []) if w > ob]
        k_ = int(variant[-1]) - 1
        if len(after_b) <= k_:
            return None
        switches = [{"step": h["i"], "at": o}, {"step": hb["i"], "at": after_b[k_]}]
        grants = [[0, 0]] * before + [[0, 0], [1, 0], [0, 0], [1, 0]]
    plan = {"exec": "preempt", "config": "directed:" + variant, "faults": [], "fp": [], "evict_mid": [],
            "switch_at": switches, "sched_seed": rng.getrandbits(48), "quantum_mean": 300,
            "target_site": seam.site_str(site), "grants": grants}
    return case, hist2, plan


def batch_default(o):
    from .batch import _json_default

    return _json_default(o)


def directed_plan(rng, case, history, site, variant) -> dict | None:
    """A plan with exactly one fault / forced switch right before or right after the first golden hit of `site`."""
    site = tuple(site)
    for h in history:
        if h.get("status") != "ok":
            continue
        for o, key in (h.get("wsk") or []):
            if tuple(key) == site:
                post = X.post_of(h, o)
                at = o if variant.endswith("_pre") or post is None else post
                plan = {"exec": "preempt" if variant.startswith("switch") else "seq", "config": "directed:" + variant,
                        "faults": [], "fp": [], "evict_mid": [], "switch_at": [], "sched_seed": rng.getrandbits(48),
                        "quantum_mean": 300, "target_site": seam.site_str(site)}
                if variant.startswith("switch"):
                    plan["switch_at"].append({"step": h["i"], "at": at})
                else:
                    kind = "async_memerr" if variant.startswith("memerr") else "async_interrupt"
                    plan["faults"].append({"step": h["i"], "kind": kind, "at": at})
                return plan
    return None


def run_c12_seed(seed, want_sample: bool = False, config: str | None = None) -> dict:
    directed = None
    want_op = None
    if isinstance(seed, (tuple, list)):
        want_op = seed[3] if len(seed) > 3 else None
        seed, site, variant = seed[:3]
        directed = (tuple(site), variant)
    worker_init()
    t0 = time.perf_counter()
    stats = new_stats()
    case, rng = make_case(seed)
    res = {"seed": seed, "violation": None, "stats": stats, "harness_error": None}
    try:
        history, v = X.golden_run(case, rng, stats)
        res["golden_digest"] = history_digest(history)
        res["hsig"] = signature_of_history(case, history)
        res["nontrivial"] = nontrivial(history)
        res["config"] = "golden"
        if directed is None:
            hits = {}
            site_ops = {}
            for h in history:
                for _o, key in (h.get("wsk") or []):
                    hits.setdefault(tuple(key), seed)
                    if h.get("status") == "ok":
                        site_ops.setdefault(tuple(key), set()).add(h["op"])
            res["site_hits"] = hits
            res["site_ops"] = {k: sorted(v_) for k, v_ in site_ops.items()}
        if v is None:
            cfgname = config or CONFIGS[rng.randrange(4)]
            if directed is not None and directed[1].startswith("duet"):
                dc = duet_case(rng, case, history, directed[0], directed[1], stats, want_op)
                cfgname = "directed"
                if dc is None:
                    res["config"] = "directed_unreached"
                    res["wall"] = time.perf_counter() - t0
                    return res
                case, history, plan = dc
                stats.setdefault("directed", {})[directed[1]] = 1
            elif directed is not None:
                plan = directed_plan(rng, case, history, *directed)
                cfgname = "directed"
                if plan is None:
                    res["config"] = "directed_unreached"
                    res["wall"] = time.perf_counter() - t0
                    return res
                if case["cfg"]["n_clients"] < 2 and plan["exec"] == "preempt":
                    case["cfg"]["n_clients"] = 2
                    for k, st in enumerate(case["steps"]):
                        st["c"] = k % 2
                    history = [dict(h, c=case["steps"][j]["c"]) for j, h in enumerate(history)]
                stats.setdefault("directed", {})[directed[1]] = 1
            elif directed is not None:
                pass
            else:
                plan = program_plan(rng, case, history, cfgname)
            res["config"] = cfgname
            if plan["exec"] == "seq":
                v, hist2 = X.faulted_seq_run(case, plan, history, stats)
            else:
                v, hist2 = X.preempt_run(case, plan, history, stats)
                res["sched_sig"] = hashlib.blake2b(repr(plan.get("grants_realised")).encode(),
                                                   digest_size=8).hexdigest()
                res["hsig"] += ":" + res["sched_sig"][:12]
            case["plan"] = plan
            res["faulted_digest"] = history_digest(hist2) + ":" + hashlib.blake2b(
                repr((plan.get("grants_realised"), sorted(stats["fault_sites"].items()))).encode(),
                digest_size=6).hexdigest()
        if v is not None:
            res["violation"] = dict(v)
            res["case"] = strip_case(case)
            W.evict_caches(3)
            restore_globals()
        elif want_sample:
            res["sample"] = sample_of(case, history)
    except Exception as e:  # noqa: BLE001
        res["harness_error"] = f"{type(e).__name__}: {e}\n{traceback.format_exc()}"
    finally:
        seam.set_ctx(None)
    res["wall"] = time.perf_counter() - t0
    return res


def program_plan(rng, case, history, cfgname):
    return X.gen_plan(rng, case["cfg"], history, cfgname)


def strip_case(case: dict) -> dict:
    c = {k: case[k] for k in ("version", "property", "seed", "cfg", "recipes") if k in case}
    c["steps"] = [{k: s[k] for k in ("i", "c", "op", "args", "p", "out", "mode", "of") if k in s} for s in case["steps"]]
    if "plan" in case:
        p = dict(case["plan"])
        if "grants_realised" in p:
            p["grants"] = p.pop("grants_realised")
        c["plan"] = p
    if "removed" in case:
        c["removed"] = case["removed"]
    return c


def sample_of(case, history) -> dict:
    return {
        "seed": case["seed"],
        "pool": [f"{r['slot']}:{r['k']}" for r in case["recipes"]][:40],
        "clients": case["cfg"]["n_clients"],
        "history": [f"c{h['c']} {h['op']}{h['args']} -> {snapshot.short(h.get('ans'), 60)}" for h in history[:24]],
        "plan": {k: v for k, v in (case.get("plan") or {}).items() if k in ("config", "faults", "fp", "evict_mid")},
        "schedule_head": (case.get("plan") or {}).get("grants_realised", [])[:16],
    }


_saved_globals = None


def restore_globals() -> None:
    """Put damaged module constants back so that one violation does not poison the worker."""
    W.restore_globals()


# ---------------------------------------------------------------------------------------------------------------------
# replay of a recorded case (no PRNG involved)


def replay_case(case: dict) -> dict:
    """Re-execute a recorded case verbatim. Returns {"violation": dict | None, "harness_error": ...}."""
    worker_init()
    stats = new_stats()
    res = {"violation": None, "harness_error": None, "stats": stats}
    try:
        case = json.loads(json.dumps(case))
        history, v = X.golden_run(case, None, stats)
        if v is None and case.get("plan"):
            plan = dict(case["plan"])
            if plan["exec"] == "seq":
                v, _ = X.faulted_seq_run(case, plan, history, stats)
            else:
                v, _ = X.preempt_run(case, plan, history, stats)
        if v is not None:
            res["violation"] = dict(v)
            W.evict_caches(3)
            restore_globals()
    except Exception as e:  # noqa: BLE001
        res["harness_error"] = f"{type(e).__name__}: {e}\n{traceback.format_exc()}"
    finally:
        seam.set_ctx(None)
    return res
