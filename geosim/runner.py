"""One seeded run = golden SEQ history (+ one faulted / pre-empted re-execution); batches on 16 processes."""
from __future__ import annotations

import faulthandler
import hashlib
import json
import os
import random
import sys
import time
import traceback

import numpy as np

from . import execute as X
from . import program, seam, snapshot, world as W
from .catalogue import OPS

CONFIGS = ["seq_env", "seq_async", "preempt", "preempt_all"]


def _fp_noop(kind, flag):
    """numpy floating point error handler of the simulated processes: a distinctive, non-default error state
    ('call' with a no-op) so that a library call that changes the state and does not restore it is noticed"""
    return None


def new_stats() -> dict:
    return {"steps": 0, "lines": 0, "reasks": 0, "numeric_noise": 0, "domain_exc": 0, "ok_by_op": {}, "exc_by_op": {},
            "faults_fired": {}, "fault_sites": {}, "switch_sites": {}, "preemptions": 0}


_ready = False


def worker_init() -> None:
    global _ready
    if _ready:
        return
    np.seterrcall(_fp_noop)
    np.seterr(all="call")
    import warnings

    warnings.simplefilter("ignore")
    seam.install()
    W.init_globals()
    _ready = True


def make_case(seed: int, profile: str = "c12") -> tuple[dict, random.Random]:
    rng = random.Random(seed)
    cfg = program.make_cfg(rng, profile)
    recipes = program.gen_pool(rng, cfg)
    return {"version": 1, "property": "C12", "seed": seed, "cfg": cfg, "recipes": recipes}, rng


def history_digest(hist) -> str:
    h = hashlib.blake2b(digest_size=10)
    for x in hist:
        h.update(repr((x["i"], x.get("status"), snapshot.digest(x.get("ans")))).encode())
    return h.hexdigest()


def signature_of_history(case, hist) -> str:
    """Distinctness measure: sequence of (client, op, operand classes, outcome class)."""
    h = hashlib.blake2b(digest_size=10)
    for x in hist:
        a = x.get("ans")
        oc = a[1] if a and a[0] in ("exc", "T") else (a[0] if a else None)
        h.update(repr((x["c"], x["op"], len(x["args"]), x.get("status"), oc)).encode())
    return h.hexdigest()


def nontrivial(hist) -> bool:
    """>= 2 executed steps touch a common object."""
    seen: dict[int, int] = {}
    for x in hist:
        if x.get("status") != "ok":
            continue
        for s in set(x["args"]):
            seen[s] = seen.get(s, 0) + 1
            if seen[s] >= 2:
                return True
    return False


VARIANTS = ["memerr_pre", "memerr_post", "int_pre", "int_post", "switch_pre", "switch_post", "duet_pre", "duet_post"]


def duet_case(rng, case, history, site, variant, stats):
    """Directed concurrency case: the step that reaches `site` is paused right before / after that write, a SECOND
    client then runs one complete call of the SAME operation on other operands of the pool, then the first resumes.
    This is the schedule that exposes call-local state kept in module- or class-level variables.
    Returns (case, history, plan) or None."""
    site = tuple(site)
    hit = None
    for h in history:
        if h.get("status") != "ok":
            continue
        for o, key in (h.get("wsk") or []):
            if tuple(key) == site:
                hit = (h, o)
                break
        if hit:
            break
    if hit is None:
        return None
    h, o = hit
    op = OPS.get(h["op"])
    if op is None:
        return None
    world, _ = X.build_world(case)
    n_rec = len(case["recipes"])
    metas = {s_: m for s_, m in world.metas.items() if s_ < n_rec}
    args2 = []
    for k, spec in enumerate(op.args):
        orig = h["args"][k] if k < len(h["args"]) else None
        m0 = world.metas.get(orig) if orig in world.metas else None
        cands = [s_ for s_ in sorted(metas) if spec.ok(metas[s_]) and
                 (m0 is None or metas[s_].get("dim") == m0.get("dim"))]
        if not cands:
            return None
        other = [s_ for s_ in cands if s_ != orig] or cands
        args2.append(rng.choice(other))
    case = json.loads(json.dumps(strip_case(case), default=batch_default))
    new_i = max(s_["i"] for s_ in case["steps"]) + 1
    top = max([x for s_ in case["steps"] for x in s_.get("out", [])] + [n_rec]) + 1
    for s_ in case["steps"]:
        s_["c"] = 0
    case["steps"].append({"i": new_i, "c": 1, "op": h["op"], "args": args2, "p": h.get("p"),
                          "out": list(range(top, top + X.MAX_OUT)), "mode": "typed"})
    case["cfg"]["n_clients"] = 2
    hist2, v = X.golden_run(case, None, stats)
    if v is not None:
        return None
    h2 = next((x for x in hist2 if x["i"] == h["i"]), None)
    if h2 is None or h2.get("status") != "ok":
        return None
    after = [w for w in (h2.get("ws") or []) if w > o]
    at = o if variant.endswith("_pre") or not after else after[0]
    before = sum(1 for x in hist2 if x["i"] < h["i"] and x.get("status") != "removed")
    grants = [[0, 0]] * before + [[0, 0], [1, 0]]
    plan = {"exec": "preempt", "config": "directed:" + variant, "faults": [], "fp": [], "evict_mid": [],
            "switch_at": [{"step": h["i"], "at": at}], "sched_seed": rng.getrandbits(48), "quantum_mean": 300,
            "target_site": seam.site_str(site), "grants": grants}
    return case, hist2, plan


def batch_default(o):
    from .batch import _json_default

    return _json_default(o)


def directed_plan(rng, case, history, site, variant) -> dict | None:
    """A plan with exactly one fault / forced switch right before or right after the first golden hit of `site`."""
    site = tuple(site)
    for h in history:
        if h.get("status") != "ok":
            continue
        for o, key in (h.get("wsk") or []):
            if tuple(key) == site:
                after = [w for w in (h.get("ws") or []) if w > o]
                at = o if variant.endswith("_pre") or not after else after[0]
                plan = {"exec": "preempt" if variant.startswith("switch") else "seq", "config": "directed:" + variant,
                        "faults": [], "fp": [], "evict_mid": [], "switch_at": [], "sched_seed": rng.getrandbits(48),
                        "quantum_mean": 300, "target_site": seam.site_str(site)}
                if variant.startswith("switch"):
                    plan["switch_at"].append({"step": h["i"], "at": at})
                else:
                    kind = "async_memerr" if variant.startswith("memerr") else "async_interrupt"
                    plan["faults"].append({"step": h["i"], "kind": kind, "at": at})
                return plan
    return None


def run_c12_seed(seed, want_sample: bool = False, config: str | None = None) -> dict:
    directed = None
    if isinstance(seed, (tuple, list)):
        seed, site, variant = seed
        directed = (tuple(site), variant)
    worker_init()
    t0 = time.perf_counter()
    stats = new_stats()
    case, rng = make_case(seed)
    res = {"seed": seed, "violation": None, "stats": stats, "harness_error": None}
    try:
        history, v = X.golden_run(case, rng, stats)
        res["golden_digest"] = history_digest(history)
        res["hsig"] = signature_of_history(case, history)
        res["nontrivial"] = nontrivial(history)
        res["config"] = "golden"
        if directed is None:
            hits = {}
            for h in history:
                for _o, key in (h.get("wsk") or []):
                    hits.setdefault(tuple(key), seed)
            res["site_hits"] = hits
        if v is None:
            cfgname = config or CONFIGS[rng.randrange(4)]
            if directed is not None and directed[1].startswith("duet"):
                dc = duet_case(rng, case, history, directed[0], directed[1], stats)
                cfgname = "directed"
                if dc is None:
                    res["config"] = "directed_unreached"
                    res["wall"] = time.perf_counter() - t0
                    return res
                case, history, plan = dc
                stats.setdefault("directed", {})[directed[1]] = 1
            elif directed is not None:
                plan = directed_plan(rng, case, history, *directed)
                cfgname = "directed"
                if plan is None:
                    res["config"] = "directed_unreached"
                    res["wall"] = time.perf_counter() - t0
                    return res
                if case["cfg"]["n_clients"] < 2 and plan["exec"] == "preempt":
                    case["cfg"]["n_clients"] = 2
                    for k, st in enumerate(case["steps"]):
                        st["c"] = k % 2
                    history = [dict(h, c=case["steps"][j]["c"]) for j, h in enumerate(history)]
                stats.setdefault("directed", {})[directed[1]] = 1
            elif directed is not None:
                pass
            else:
                plan = program_plan(rng, case, history, cfgname)
            res["config"] = cfgname
            if plan["exec"] == "seq":
                v, hist2 = X.faulted_seq_run(case, plan, history, stats)
            else:
                v, hist2 = X.preempt_run(case, plan, history, stats)
                res["sched_sig"] = hashlib.blake2b(repr(plan.get("grants_realised")).encode(),
                                                   digest_size=8).hexdigest()
                res["hsig"] += ":" + res["sched_sig"][:12]
            case["plan"] = plan
            res["faulted_digest"] = history_digest(hist2) + ":" + hashlib.blake2b(
                repr((plan.get("grants_realised"), sorted(stats["fault_sites"].items()))).encode(),
                digest_size=6).hexdigest()
        if v is not None:
            res["violation"] = dict(v)
            res["case"] = strip_case(case)
            W.evict_caches(3)
            restore_globals()
        elif want_sample:
            res["sample"] = sample_of(case, history)
    except Exception as e:  # noqa: BLE001
        res["harness_error"] = f"{type(e).__name__}: {e}\n{traceback.format_exc()}"
    finally:
        seam.set_ctx(None)
    res["wall"] = time.perf_counter() - t0
    return res


def program_plan(rng, case, history, cfgname):
    return X.gen_plan(rng, case["cfg"], history, cfgname)


def strip_case(case: dict) -> dict:
    c = {k: case[k] for k in ("version", "property", "seed", "cfg", "recipes") if k in case}
    c["steps"] = [{k: s[k] for k in ("i", "c", "op", "args", "p", "out", "mode", "of") if k in s} for s in case["steps"]]
    if "plan" in case:
        p = dict(case["plan"])
        if "grants_realised" in p:
            p["grants"] = p.pop("grants_realised")
        c["plan"] = p
    if "removed" in case:
        c["removed"] = case["removed"]
    return c


def sample_of(case, history) -> dict:
    return {
        "seed": case["seed"],
        "pool": [f"{r['slot']}:{r['k']}" for r in case["recipes"]][:40],
        "clients": case["cfg"]["n_clients"],
        "history": [f"c{h['c']} {h['op']}{h['args']} -> {snapshot.short(h.get('ans'), 60)}" for h in history[:24]],
        "plan": {k: v for k, v in (case.get("plan") or {}).items() if k in ("config", "faults", "fp", "evict_mid")},
        "schedule_head": (case.get("plan") or {}).get("grants_realised", [])[:16],
    }


_saved_globals = None


def restore_globals() -> None:
    """Best effort: put damaged module constants back so that one violation does not poison the worker."""
    # the snapshot holds the bytes of small arrays verbatim
    for (name, o), s in zip(W.GLOBALS, W._GLOBAL_SNAPS):
        try:
            _restore(o, s)
        except Exception:  # noqa: BLE001
            pass


def _restore(o, s):
    from geometer.base import Tensor

    if isinstance(o, np.ndarray) and s[0] == "nd" and len(s[3]) == o.nbytes:
        o[...] = np.frombuffer(s[3], dtype=np.dtype(s[1])).reshape(s[2])
    elif isinstance(o, Tensor) and s[0] == "T":
        for k, sv in s[2]:
            cur = o.__dict__.get(k)
            if isinstance(cur, (np.ndarray, Tensor)):
                _restore(cur, sv)
            elif sv[0] == "set":
                o.__dict__[k] = set(sv[1])


# ---------------------------------------------------------------------------------------------------------------------
# replay of a recorded case (no PRNG involved)


def replay_case(case: dict) -> dict:
    """Re-execute a recorded case verbatim. Returns {"violation": dict | None, "harness_error": ...}."""
    worker_init()
    stats = new_stats()
    res = {"violation": None, "harness_error": None, "stats": stats}
    try:
        case = json.loads(json.dumps(case))
        history, v = X.golden_run(case, None, stats)
        if v is None and case.get("plan"):
            plan = dict(case["plan"])
            if plan["exec"] == "seq":
                v, _ = X.faulted_seq_run(case, plan, history, stats)
            else:
                v, _ = X.preempt_run(case, plan, history, stats)
        if v is not None:
            res["violation"] = dict(v)
            W.evict_caches(3)
            restore_globals()
    except Exception as e:  # noqa: BLE001
        res["harness_error"] = f"{type(e).__name__}: {e}\n{traceback.format_exc()}"
    finally:
        seam.set_ctx(None)
    return res
