"""Deterministic pre-emptive scheduler: one real thread per client, exactly one holds the baton.

A client yields only to the scheduler, from the seam's LINE callback (when its quantum of geometer lines is used up)
or at the end of a step. Which client runs next and for how many lines is decided by `Decisions` (seeded PRNG or a
recorded list); nothing else is left to the OS.
"""
from __future__ import annotations

import random
import threading

import numpy as np

from . import seam

HARNESS_TIMEOUT = 120.0


def _fp_noop(kind, flag):
    """numpy floating point error handler of the simulated processes: a distinctive, non-default error state
    ('call' with a no-op) so that a library call that changes the state and does not restore it is noticed"""
    return None


class Decisions:
    """Source of scheduling decisions: fresh (seeded PRNG) or replay (recorded list). Always records."""

    def __init__(self, seed=None, quantum_mean=30, replay=None):
        self.rng = random.Random(seed) if replay is None else None
        self.qm = quantum_mean
        self.replay = list(replay) if replay is not None else None
        self.pos = 0
        self.record: list[list[int]] = []

    def next(self, runnable: list[int]) -> tuple[int, int]:
        if self.replay is not None:
            while self.pos < len(self.replay):
                c, q = self.replay[self.pos]
                self.pos += 1
                if c in runnable:
                    self.record.append([c, q])
                    return c, q
            c, q = runnable[0], 0
            self.record.append([c, q])
            return c, q
        c = self.rng.choice(runnable)
        if self.rng.random() < 0.15:
            q = 0  # run to the end of the step
        else:
            q = 1 + int(self.rng.expovariate(1.0 / self.qm))
        self.record.append([c, q])
        return c, q


class _Stop(BaseException):
    pass


class Client:
    def __init__(self, cid: int, steps: list):
        self.cid = cid
        self.steps = steps
        self.pos = 0
        self.ctx = seam.Ctx()
        self.ev = threading.Event()
        self.midstep = False
        self.done = not steps
        self.thread = None
        self.error = None
        self.cur = None


def run(client_steps: dict[int, list], exec_fn, ready_fn, on_entry, dec: Decisions, stats: dict) -> object:
    """Run all clients to completion under `dec`.

    exec_fn(step, ctx) -> result      executed in the client's thread while it holds the baton
    ready_fn(step, any_midstep) -> bool  may this step start now (data dependencies; environment steps such as
                                      cache eviction only start at quiescent points, i.e. when no client is mid-step)
    on_entry(finished_now: list[(step, result)], inflight: list[(Client)], current: Client) -> violation | None
                                      executed by the scheduler every time the baton comes back
    Returns the first violation (or None). Raises RuntimeError on harness problems.
    """
    clients = {c: Client(c, s) for c, s in client_steps.items()}
    owner = {}
    finished: dict[int, object] = {}
    fresh: list = []
    sched_ev = threading.Event()
    stop = [False]
    switches = stats.setdefault("switch_sites", {})

    def on_yield(ctx, site):
        me = owner[id(ctx)]
        k = seam.site_str(site)
        switches[k] = switches.get(k, 0) + 1
        stats["preemptions"] = stats.get("preemptions", 0) + 1
        me.midstep = True
        sched_ev.set()
        me.ev.wait()
        me.ev.clear()
        if stop[0]:
            ctx.active = False
            raise _Stop()

    def client_main(cl: Client):
        seam.set_ctx(cl.ctx)
        np.seterrcall(_fp_noop)
        np.seterr(all="call")
        try:
            cl.ev.wait()
            cl.ev.clear()
            while cl.pos < len(cl.steps) and not stop[0]:
                step = cl.steps[cl.pos]
                cl.cur = step
                r = exec_fn(step, cl.ctx)
                cl.midstep = False
                if stop[0]:
                    break
                finished[id(step)] = r
                fresh.append((step, r))
                cl.pos += 1
                cl.cur = None
                if cl.pos >= len(cl.steps):
                    cl.done = True
                sched_ev.set()
                if not cl.done:
                    cl.ev.wait()
                    cl.ev.clear()
            cl.done = True
            cl.cur = None
            sched_ev.set()
        except BaseException as e:  # noqa: BLE001
            cl.error = e
            cl.done = True
            sched_ev.set()

    for cl in clients.values():
        cl.ctx.on_yield = on_yield
        owner[id(cl.ctx)] = cl
        if cl.done:
            continue
        cl.thread = threading.Thread(target=client_main, args=(cl,), daemon=True, name=f"client-{cl.cid}")
        cl.thread.start()

    seam.set_ctx(None)
    violation = None
    try:
        while True:
            live = [cl for cl in clients.values() if not cl.done]
            if not live:
                break
            any_mid = any(cl.midstep for cl in live)
            runnable = [cl.cid for cl in live if cl.midstep or ready_fn(cl.steps[cl.pos], any_mid)]
            if not runnable:
                runnable = [live[0].cid]  # producers failed: exec_fn skips steps with void operands
            c, q = dec.next(sorted(runnable))
            cl = clients[c]
            cl.ctx.yield_at = (cl.ctx.n + q) if (q > 0 and cl.midstep) else (q if q > 0 else -1)
            sched_ev.clear()
            cl.ev.set()
            if not sched_ev.wait(HARNESS_TIMEOUT):
                raise RuntimeError("harness: client did not yield within the timeout")
            if cl.error is not None:
                raise RuntimeError(f"harness: client thread died: {cl.error!r}")
            now, fresh[:] = list(fresh), []
            violation = on_entry(now, [x for x in clients.values() if x.cur is not None], cl)
            if violation is not None:
                break
    finally:
        stop[0] = True
        for cl in clients.values():
            if cl.thread is None:
                continue
            for _ in range(400):
                if not cl.thread.is_alive():
                    break
                cl.ctx.yield_at = -1
                cl.ctx.fault_at = -1
                cl.ev.set()
                cl.thread.join(0.05)
            if cl.thread.is_alive():
                raise RuntimeError("harness: client thread did not terminate")
        seam.set_ctx(None)
    return violation
