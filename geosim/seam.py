"""The seam between the simulator and geometer: sys.monitoring LINE events on geometer code.

It provides, without touching /repo:
  * a logical clock        -- the n-th geometer line executed by the current client in the current step
  * a pre-emption point    -- the callback can park the calling thread and hand the baton to the scheduler
  * an injection point     -- an exception raised by the callback surfaces in the monitored frame
  * a mid-step environment fault -- eviction of the process-wide caches at a chosen ordinal
  * reach measurement      -- which geometer lines ran under simulation, which write-sites were reached

Nothing here draws from a PRNG or reads a clock.
"""
from __future__ import annotations

import ast
import os
import sys
import threading
import types

import geometer

mon = sys.monitoring
TOOL = 3
GEODIR = os.path.dirname(os.path.abspath(geometer.__file__))

INPLACE_METHODS = {
    "append", "extend", "pop", "insert", "remove", "clear", "update", "add", "sort", "fill", "setdefault",
    "put", "resize", "itemset", "setflags", "__setitem__", "discard", "popitem", "reverse", "setfield",
    "partition", "byteswap",
}


STATE_SETTERS = {"seterr", "seterrcall", "set_printoptions", "setbufsize", "setrecursionlimit", "simplefilter",
                 "filterwarnings", "resetwarnings", "setswitchinterval", "set_string_function", "putenv", "chdir",
                 "setlocale", "seed"}


class SimInterrupt(KeyboardInterrupt):
    """Injected asynchronous interrupt (Ctrl-C / task cancellation)."""


class SimMemoryError(MemoryError):
    """Injected allocation failure. Deliberately an Exception subclass."""


class StepBudgetExceeded(BaseException):
    """Raised by the seam when one step executes more geometer lines than the cap (harness guard)."""


class Ctx:
    """Per-client seam state. One Ctx per client thread (or one for the SEQ executor)."""

    __slots__ = (
        "active", "n", "fault_at", "fault_exc", "fault_site", "evict_at", "evict_fn", "evicted_site",
        "yield_at", "on_yield", "trace_ws", "ws_ordinals", "pending", "cap", "last_site", "ws_hits", "ws_events",
        "force_at", "ws_post",
    )

    def __init__(self) -> None:
        self.active = False
        self.n = 0
        self.fault_at = -1
        self.fault_exc = None
        self.fault_site = None
        self.evict_at = -1
        self.evict_fn = None
        self.evicted_site = None
        self.yield_at = -1
        self.on_yield = None
        self.trace_ws = False
        self.ws_ordinals = None
        self.pending = None
        self.cap = 2_000_000
        self.last_site = None
        self.ws_hits = 0
        self.ws_events = None
        self.force_at = -1
        self.ws_post = []

    def begin(self) -> None:
        self.n = 0
        self.fault_site = None
        self.evicted_site = None
        self.pending = None
        self.last_site = None
        if self.trace_ws:
            self.ws_ordinals = []
            self.ws_events = []
            self.ws_post = []
        self.active = True

    def end(self) -> int:
        self.active = False
        self.fault_at = -1
        self.evict_at = -1
        self.yield_at = -1
        self.force_at = -1
        return self.n


_tls = threading.local()
_installed = False
_codes: list[types.CodeType] = []
FILES: list[str] = []          # index -> path relative to GEODIR
_file_index: dict[str, int] = {}
WRITE_SITES: set[tuple[int, int]] = set()    # (file index, line)
WRITE_SITE_FUNCS: dict[tuple[int, int], str] = {}
COVERED: dict[tuple[int, int], int] = {}     # (file index, line) -> hits (this process)
EXECUTABLE_LINES: set[tuple[int, int]] = set()
_code_file: dict[int, int] = {}              # id(code) -> file index
WITH_LINES: set[tuple[int, int]] = set()     # (file index, line) of `with` statements
_WITH_ENTRY: dict[tuple[int, int], int] = {}  # (id(code), line) -> bytecode offset of the ENTRY of that with statement


def set_ctx(ctx: Ctx | None) -> None:
    _tls.ctx = ctx


def get_ctx() -> Ctx | None:
    return getattr(_tls, "ctx", None)


_LINE_STARTS: dict[int, frozenset] = {}      # id(code) -> bytecode offsets at which a source line begins
DROPPED: dict[tuple[int, int], int] = {}     # (file index, line) -> mid-line events ignored (this process)


def _callback(code: types.CodeType, line: int):
    ctx = getattr(_tls, "ctx", None)
    if ctx is None or not ctx.active:
        return None
    if sys._getframe(1).f_lasti not in _LINE_STARTS[id(code)]:
        # CPython also reports a line when execution comes back to it in the middle (after the branches of a
        # conditional expression, at the head of a loop) -- and whether it does depends on whether that code has run
        # before in this process (observed: point.py `join(a if c else b, p)`, 1 event cold, 2 warm). A logical
        # clock must not depend on the interpreter's warm-up state: only the instruction that BEGINS a line counts.
        k_ = (_code_file[id(code)], line)
        DROPPED[k_] = DROPPED.get(k_, 0) + 1
        return None
    ctx.n = n = ctx.n + 1
    key = (_code_file[id(code)], line)
    COVERED[key] = COVERED.get(key, 0) + 1
    ctx.last_site = key
    if ctx.trace_ws:
        # write lines in progress, innermost last (a write line may call into code that has write lines of its own);
        # a line is complete when its frame moves on to another line or returns: that event is "right after the write"
        st = ctx.pending
        if st:
            fr = sys._getframe(1)
            while st:
                p = st[-1]
                if fr is p[0]:
                    if line == p[1]:
                        break
                else:
                    g = fr.f_back
                    while g is not None and g is not p[0]:
                        g = g.f_back
                    if g is not None:  # still on the stack below the current frame
                        break
                st.pop()
                if not ctx.ws_ordinals or ctx.ws_ordinals[-1] != n:
                    ctx.ws_ordinals.append(n)
                if len(ctx.ws_post) < 512:
                    ctx.ws_post.append((p[2], n))   # this write line began at ordinal p[2] and is complete at n
        if key in WRITE_SITES:
            if len(ctx.ws_events) < 256:
                ctx.ws_events.append((n, key))
            if st is None:
                st = ctx.pending = []
            if len(st) < 16:
                if not st:
                    ctx.ws_hits += 1
                st.append((sys._getframe(1), line, n))
    if n == ctx.evict_at:
        ctx.evicted_site = key
        ctx.evict_fn()
    if n == ctx.fault_at:
        if key in WITH_LINES and sys._getframe(1).f_lasti > _WITH_ENTRY.get((id(code), line), 1 << 30):
            # CPython attributes the call of __exit__ to the line of the `with` statement: this is the event between
            # the end of the block and __exit__. An exception delivered exactly here skips __exit__ -- a limitation
            # of the with statement itself (PEP 419), not something a library can repair -- so the fault is delivered
            # one line event later instead.
            ctx.fault_at = n + 1
        else:
            ctx.fault_at = -1
            ctx.fault_site = key
            raise ctx.fault_exc
    if n == ctx.yield_at or n == ctx.force_at:
        ctx.on_yield(ctx, key)
    if n > ctx.cap:
        ctx.active = False
        raise StepBudgetExceeded(f"more than {ctx.cap} geometer lines in one step")
    return None


def _scan_file(path: str, fidx: int) -> None:
    src = open(path, encoding="utf-8").read()
    tree = ast.parse(src)

    func_of_line: dict[int, str] = {}

    class V(ast.NodeVisitor):
        def __init__(self):
            self.stack = []
            self.globals = [set()]

        def visit_FunctionDef(self, node):
            self.stack.append(node.name)
            self.globals.append({n for g in ast.walk(node) if isinstance(g, (ast.Global, ast.Nonlocal)) for n in g.names})
            self.generic_visit(node)
            self.globals.pop()
            self.stack.pop()

        visit_AsyncFunctionDef = visit_FunctionDef

        def visit_ClassDef(self, node):
            self.stack.append(node.name)
            self.generic_visit(node)
            self.stack.pop()

        def _mark(self, node):
            if not self.stack:
                return
            key = (fidx, node.lineno)
            WRITE_SITES.add(key)
            WRITE_SITE_FUNCS[key] = ".".join(self.stack)

        def visit_Assign(self, node):
            for t in node.targets:
                for tt in ast.walk(t):
                    if isinstance(tt, (ast.Subscript, ast.Attribute)) and isinstance(tt.ctx, ast.Store):
                        self._mark(node)
                    elif isinstance(tt, ast.Name) and tt.id in self.globals[-1]:
                        self._mark(node)  # rebinding a module-level / enclosing name publishes shared state
            self.generic_visit(node)

        def visit_With(self, node):
            WITH_LINES.add((fidx, node.lineno))
            self.generic_visit(node)

        def visit_AugAssign(self, node):
            self._mark(node)
            self.generic_visit(node)

        def visit_AnnAssign(self, node):
            if node.value is not None and isinstance(node.target, (ast.Subscript, ast.Attribute)):
                self._mark(node)
            self.generic_visit(node)

        def visit_Call(self, node):
            if any(k.arg == "out" for k in node.keywords):
                self._mark(node)
            if isinstance(node.func, ast.Attribute) and node.func.attr in INPLACE_METHODS:
                self._mark(node)
            name = node.func.attr if isinstance(node.func, ast.Attribute) else getattr(node.func, "id", None)
            if name in STATE_SETTERS:
                self._mark(node)   # a write to process-wide state (numpy error handling, print options, ...)
            self.generic_visit(node)

    V().visit(tree)


def _all_codes() -> list[types.CodeType]:
    seen: set[int] = set()
    out: list[types.CodeType] = []

    def add(c: types.CodeType) -> None:
        if id(c) in seen or not os.path.abspath(c.co_filename).startswith(GEODIR + os.sep):
            return
        seen.add(id(c))
        out.append(c)
        for k in c.co_consts:
            if isinstance(k, types.CodeType):
                add(k)

    def visit(o, depth=0) -> None:
        if isinstance(o, types.FunctionType):
            add(o.__code__)
        elif isinstance(o, (staticmethod, classmethod)):
            visit(o.__func__)
        elif isinstance(o, property):
            for f in (o.fget, o.fset, o.fdel):
                if f is not None:
                    visit(f)
        elif isinstance(o, type) and depth < 3 and str(getattr(o, "__module__", "")).startswith("geometer"):
            for v in list(vars(o).values()):
                visit(v, depth + 1)

    for name in sorted(sys.modules):
        if name == "geometer" or name.startswith("geometer."):
            m = sys.modules[name]
            if m is None:
                continue
            for v in list(vars(m).values()):
                visit(v)
    return out


def install() -> None:
    """Idempotent. Enable LINE events on every code object defined in the geometer package."""
    global _installed
    if _installed:
        return
    # make sure every submodule is imported so that its code objects are found
    import geometer.base, geometer.curve, geometer.operators, geometer.point, geometer.shapes  # noqa: F401,E401
    import geometer.transformation, geometer.utils.indexing, geometer.utils.math, geometer.utils.ops_dispatch  # noqa: F401,E401

    paths = []
    for root, _dirs, files in os.walk(GEODIR):
        for f in files:
            if f.endswith(".py"):
                paths.append(os.path.join(root, f))
    for p in sorted(paths):
        rel = os.path.relpath(p, GEODIR)
        _file_index[os.path.abspath(p)] = len(FILES)
        FILES.append(rel)
        _scan_file(p, _file_index[os.path.abspath(p)])

    try:
        mon.use_tool_id(TOOL, "geosim")
    except ValueError:
        pass
    for c in _all_codes():
        fidx = _file_index.get(os.path.abspath(c.co_filename))
        if fidx is None:
            continue
        _code_file[id(c)] = fidx
        _codes.append(c)
        starts, prev_ln = set(), None
        for (_s, _e, ln) in c.co_lines():
            if ln is not None and ln != prev_ln:
                starts.add(_s)
            prev_ln = ln
        _LINE_STARTS[id(c)] = frozenset(starts)
        for (_s, _e, ln) in c.co_lines():
            if ln is not None and c.co_name != "<module>":
                EXECUTABLE_LINES.add((fidx, ln))
            if ln is not None and (fidx, ln) in WITH_LINES:
                k_ = (id(c), ln)
                _WITH_ENTRY[k_] = min(_WITH_ENTRY.get(k_, 1 << 30), _s)
        mon.set_local_events(TOOL, c, mon.events.LINE)
    mon.register_callback(TOOL, mon.events.LINE, _callback)
    _installed = True


class paused:
    """No LINE events inside the block (bulk, fault-free work such as the exhaustive tables: the per-line callback
    costs ~10x on code that calls a Python function per array entry). Only for phases without clients or faults."""

    def __enter__(self):
        if _installed:
            mon.register_callback(TOOL, mon.events.LINE, None)
        return self

    def __exit__(self, *exc):
        if _installed:
            mon.register_callback(TOOL, mon.events.LINE, _callback)
        return False


def site_str(key) -> str:
    if key is None:
        return "?"
    return f"{FILES[key[0]]}:{key[1]}"


def write_site_summary() -> dict:
    reached = sorted(k for k in WRITE_SITES if k in COVERED)
    return {
        "write_sites_total": len(WRITE_SITES),
        "write_sites_reached": len(reached),
        "write_site_functions": len(set(WRITE_SITE_FUNCS.values())),
        "unreached": [site_str(k) + " " + WRITE_SITE_FUNCS[k] for k in sorted(WRITE_SITES) if k not in COVERED],
    }


def line_coverage() -> tuple[int, int]:
    ex = {k for k in EXECUTABLE_LINES}
    return len([k for k in ex if k in COVERED]), len(ex)
