"""C05: reference model M5 of TensorDiagram (builder histories) and of epsilon/delta; generator, executors, oracles.

The model implements the *statement*, not the code:
  * a diagram is a list of nodes (identity = Python object) with, per node, the still-unused covariant and
    contravariant axes in ascending order;
  * an edge (s, t) pairs the first unused covariant axis of s with the first unused contravariant axis of t; no axis
    left or different axis lengths -> TensorComputationError;
  * evaluation = product of all node arrays summed over the paired axes (computed here WITHOUT einsum: exact outer
    product + explicit traces), result axes = unused covariant axes node by node, then unused contravariant axes node
    by node; result type (n_cov, n_con).
"""
from __future__ import annotations

import hashlib
import itertools
import math
import random
import time
import traceback

import numpy as np

from geometer.base import KroneckerDelta, LeviCivitaTensor, Tensor, TensorDiagram
from geometer.exceptions import TensorComputationError

from . import sched, seam, snapshot, world as W

MAX_ELEMS = 1 << 18
NARROW_CAP = {"b": 1, "i8": 127, "i32": 2 ** 31 - 1, "u8": 255, "i16": 2 ** 15 - 1, "f32": 2 ** 24}   # largest magnitude a narrow node dtype can hold


# ---------------------------------------------------------------------------------------------------------------------
# model


class MTensor:
    """What the model knows about a node tensor: exact array, covariant / contravariant axes."""

    __slots__ = ("arr", "cov", "con", "int8", "free")

    def __init__(self, arr, cov, con, int8=False, free=0):
        self.arr = arr
        self.cov = sorted(cov)      # absolute axis numbers (as in the library), i.e. >= free
        self.con = sorted(con)
        self.free = free            # 0, or 1: one leading collection axis (elementwise reading)
        # largest magnitude the dtype of the library-side array can hold if it is a narrow one, else 0:
        # True -> 127 (int8: epsilon, delta(n,n)), 1 -> bool, False/0 -> wide (int64, float64, complex128)
        self.int8 = 127 if int8 is True else int(int8)

    @property
    def shape(self):
        return self.arr.shape


class ModelError(Exception):
    """The model predicts TensorComputationError."""


class MDiagram:
    def __init__(self):
        self.nodes: list[int] = []       # tensor slot ids (node identity)
        self.ucov: list[list[int]] = []
        self.ucon: list[list[int]] = []
        self.edges: list[tuple[int, int, int, int]] = []
        self.flags: set[str] = set()

    def copy(self) -> "MDiagram":
        d = MDiagram()
        d.nodes = list(self.nodes)
        d.ucov = [list(x) for x in self.ucov]
        d.ucon = [list(x) for x in self.ucon]
        d.edges = list(self.edges)
        d.flags = set(self.flags)
        return d

    def _add(self, t: int, mt: MTensor) -> int:
        self.nodes.append(t)
        self.ucov.append(list(mt.cov))
        self.ucon.append(list(mt.con))
        return len(self.nodes) - 1

    def add_node(self, t: int, tensors: dict[int, MTensor]) -> None:
        self._add(t, tensors[t])

    def add_edge(self, s: int, t: int, tensors: dict[int, MTensor]) -> None:
        """An edge that is rejected (ModelError) leaves the diagram exactly as it was."""
        nodes, ucov, ucon = list(self.nodes), [list(x) for x in self.ucov], [list(x) for x in self.ucon]
        flag = False

        def add(x):
            nodes.append(x)
            ucov.append(list(tensors[x].cov))
            ucon.append(list(tensors[x].con))
            return len(nodes) - 1

        si = nodes.index(s) if s in nodes else None
        ti = nodes.index(t) if t in nodes else None
        if si is None:
            si = add(s)
            if t == s:
                ti = si
                flag = True
        if ti is None:
            ti = add(t)
        if not ucov[si] or not ucon[ti]:
            raise ModelError("no indices left")
        i = ucov[si].pop(0)
        j = ucon[ti].pop(0)
        if tensors[s].shape[i] != tensors[t].shape[j]:
            raise ModelError("dimension mismatch")
        self.nodes, self.ucov, self.ucon = nodes, ucov, ucon
        if flag:
            self.flags.add("self-edge-on-unregistered-node")
        self.edges.append((si, ti, i, j))

    def free_shape(self, tensors, extra=None):
        """Common collection shape of the nodes: their free (leading) axes are aligned from the LAST one backwards
        (as numpy broadcasting aligns shapes); aligned axes must have equal length. None if incompatible."""
        shapes = [tuple(tensors[t].shape[: tensors[t].free]) for t in self.nodes]
        if extra is not None:
            shapes.append(tuple(extra))
        out: list[int] = []
        for sh in shapes:
            for k in range(1, len(sh) + 1):
                if k <= len(out):
                    if out[-k] != sh[-k]:
                        return None
                else:
                    out.insert(0, sh[-k])
        return tuple(out)

    def size(self, tensors) -> int:
        if not self.nodes:
            return 0
        fs = self.free_shape(tensors) or ()
        return math.prod(fs) * math.prod(math.prod(tensors[t].shape[tensors[t].free:]) for t in self.nodes)

    def evaluate(self, tensors: dict[int, MTensor]):
        """Exact value, number of covariant / contravariant result axes, the L1 bound of the sum and the number of
        free (collection) axes of the result. Collection nodes are evaluated element by element over the common
        collection shape (free axes aligned from the last one backwards), the results stacked in front."""
        B = self.free_shape(tensors)
        if B is None:
            raise ModelError("collection axes of different lengths")
        outs, bounds = [], []
        ncov = ncon = 0
        for e in (np.ndindex(*B) if B else [()]):
            arrs = []
            for t in self.nodes:
                mt = tensors[t]
                arrs.append(mt.arr[tuple(e[len(e) - mt.free:])] if mt.free else mt.arr)
            fr = [tensors[t].free for t in self.nodes]
            full = arrs[0]
            bound = np.abs(arrs[0]).astype(np.float64)
            for a in arrs[1:]:
                full = np.multiply.outer(full, a)
                bound = np.multiply.outer(bound, np.abs(a).astype(np.float64))
            offs = np.cumsum([0] + [a.ndim for a in arrs])
            labels = list(range(full.ndim))  # current position -> original global axis
            for si, ti, i, j in self.edges:
                a, b = offs[si] + i - fr[si], offs[ti] + j - fr[ti]
                pa, pb = labels.index(a), labels.index(b)
                full = np.trace(full, axis1=pa, axis2=pb)
                bound = np.trace(bound, axis1=pa, axis2=pb)
                labels = [x for x in labels if x not in (a, b)]
            order = []
            for k in range(len(self.nodes)):
                order += [offs[k] + x - fr[k] for x in self.ucov[k]]
            ncov = len(order)
            for k in range(len(self.nodes)):
                order += [offs[k] + x - fr[k] for x in self.ucon[k]]
            ncon = len(order) - ncov
            perm = [labels.index(x) for x in order]
            full = np.transpose(full, perm) if perm else full
            outs.append(np.asarray(full))
            bounds.append(float(np.max(bound)) if np.size(bound) else 0.0)
        if not B:
            return outs[0], ncov, ncon, bounds[0], 0
        res = np.stack(outs, axis=0)
        return res.reshape(tuple(B) + res.shape[1:]), ncov, ncon, max(bounds) if bounds else 0.0, len(B)


# ---------------------------------------------------------------------------------------------------------------------
# program generation (pure data, model-guided; no library code is executed)


def make_cfg(rng: random.Random) -> dict:
    import os

    deep = os.environ.get("GEOSIM_TIER") == "thorough"
    return {
        "profile": "c05",
        "n_steps": rng.choice([6, 10, 16, 24, 32, 48, 64] if deep else [6, 10, 16, 24, 32]),
        "n_clients": rng.choice([1, 2, 2, 3, 4, 6] if deep else [1, 2, 2, 3, 4]),
        "main_n": rng.choice([2, 3, 3, 4]),
        "p_legal": rng.choice([0.7, 0.85, 0.95]),
        "p_complex": rng.choice([0.0, 0.0, 0.2]),
        "cold_start": rng.random() < 0.5,
        "quantum_mean": rng.choice([3, 30, 300]),
        "n_faults": rng.choice([0, 1, 1, 2, 3]),
        "p_cache_ops": rng.choice([0.05, 0.15, 0.3]),
        "p_self_edge_new": rng.choice([0.0, 0.0, 0.02]),
        "exotic": rng.random() < 0.4,      # rank-0 nodes, length-1 axes, float/bool/int32 dtypes, non-contiguous layouts
        "many_small": rng.random() < 0.25,  # many low-rank nodes: diagrams with up to ~12 nodes
        "colls": rng.choice([0, 0, 2, 3, 5]),   # length of the last (always shared) collection axis of collection nodes
        "multi_free": rng.random() < 0.5, "colls2": rng.choice([2, 3]), "colls3": rng.choice([2, 3]),
        "warm": [],
    }


def gen_tensor_recipe(rng, cfg, slot) -> tuple[dict, MTensor]:
    r = rng.choice([1, 1, 2, 2, 2, 3, 3, 4, 0] if cfg.get("exotic") else [1, 1, 2, 2, 2, 3, 3, 4])
    shape = [cfg["main_n"] if rng.random() < 0.8 else rng.choice([2, 3, 4, 1] if cfg.get("exotic") else [2, 3, 4])
             for _ in range(r)]
    c = rng.random()
    if c < 0.25:
        cov = list(range(r))
    elif c < 0.45:
        cov = []
    else:
        cov = [i for i in range(r) if rng.random() < 0.5]
    con = [i for i in range(r) if i not in cov]
    re = _nested(rng, shape)
    if rng.random() < cfg["p_complex"]:
        im = _nested(rng, shape)
        arr = np.array(re, dtype=np.int64) + 1j * np.array(im, dtype=np.int64)
        rec = {"slot": slot, "k": "ctensor", "a": [re, im], "kw": {"cov": cov}}
    elif cfg.get("colls") and r >= 1 and rng.random() < 0.35:
        # a collection of such tensors with 1-3 leading free indices whose shape is a suffix of one common shape
        # (J, I, K) of the run: evaluated element by element, free indices aligned from the last one backwards
        K = cfg["colls"]
        full_shape = [cfg.get("colls3", 2), cfg.get("colls2", 2), K]
        nf = rng.choice([1, 1, 1, 2, 3]) if cfg.get("multi_free") else 1
        fshape = full_shape[3 - nf:]
        big = _nested(rng, fshape + shape)
        arr = np.array(big, dtype=np.int64)
        dt = "i"
        cap = 0
        c3 = rng.random()
        if c3 < 0.2:
            dt, cap = "b", 1
            arr = (arr != 0).astype(np.int64)
            big = arr.astype(bool).tolist()
        elif c3 < 0.4:
            dt, cap = "i8", 127
            arr = arr * rng.choice([20, 30])
            big = arr.tolist()
        rec = {"slot": slot, "k": "tensorcoll", "a": [big], "kw": {"cov": cov if cov else False, "rank": r, "dt": dt}}
        return rec, MTensor(arr, [nf + i for i in cov], [nf + i for i in con], int8=cap, free=nf)
    else:
        arr = np.array(re, dtype=np.int64)
        kw = {"cov": cov if cov else False, "dt": "i"}
        if cfg.get("exotic") and rng.random() < 0.12:
            # a narrow integer dtype with entries that overflow it quickly; mixed with wide nodes numpy must promote
            kw["dt"] = "i8"
            arr = arr * rng.choice([20, 30])
            rec = {"slot": slot, "k": "tensor", "a": [arr.tolist()], "kw": kw}
            return rec, MTensor(arr, cov, con, int8=127)
        if cfg.get("exotic"):
            c2 = rng.random()
            if c2 < 0.15:
                kw["dt"] = "f"               # small integers are exact in float64 too
            elif c2 < 0.25:
                kw["dt"] = "b"
                arr = (arr != 0).astype(np.int64)
                re = arr.astype(bool).tolist()
                rec = {"slot": slot, "k": "tensor", "a": [re], "kw": kw}
                return rec, MTensor(arr, cov, con, int8=1)
            elif c2 < 0.3:
                kw["dt"] = "i32"
                rec = {"slot": slot, "k": "tensor", "a": [re], "kw": kw}
                return rec, MTensor(arr, cov, con, int8=NARROW_CAP["i32"])
            elif c2 < 0.42:
                # more narrow dtypes (image data, fixed point, single precision). The cap is what the dtype holds
                # exactly; mixed narrow dtypes promote to something at least as wide as the widest of them, so
                # judging by the largest cap is conservative
                kw["dt"] = rng.choice(["i16", "f32"])
                if kw["dt"] == "u8":
                    arr = np.abs(arr) * rng.choice([1, 20, 60])
                elif kw["dt"] == "i16":
                    arr = arr * rng.choice([1, 50, 100])
                rec = {"slot": slot, "k": "tensor", "a": [arr.tolist()], "kw": kw}
                return rec, MTensor(arr, cov, con, int8=NARROW_CAP[kw["dt"]])
            if r >= 1 and rng.random() < 0.3:
                kw["layout"] = rng.choice(["F", "T", "S"])
        rec = {"slot": slot, "k": "tensor", "a": [re], "kw": kw}
    return rec, MTensor(arr, cov, con)


def _nested(rng, shape):
    if len(shape) == 0:
        return rng.randint(-3, 3)
    if len(shape) == 1:
        return [rng.randint(-3, 3) for _ in range(shape[0])]
    return [_nested(rng, shape[1:]) for _ in range(shape[0])]


class ProgGen:
    """Generates the whole program with the model alone."""

    def __init__(self, rng, cfg, private: bool):
        self.rng, self.cfg, self.private = rng, cfg, private
        self.tensors: dict[int, MTensor] = {}
        self.diagrams: dict[int, MDiagram] = {}
        self.owner: dict[int, int] = {}
        self.recipes: list[dict] = []
        self.steps: list[dict] = []
        self.next_t = 0
        self.next_d = 0
        self.subclass: set[int] = set()      # slots holding Point/Line/Plane/Transformation/Conic instances
        self.hist: dict[int, list] = {}      # diagram -> construction ops [["n", t] | ["e", s, t]]
        self.variant: dict[int, int] = {}    # tensor slot -> slot of a same-shape, same-type-count, other-layout twin

    def new_t(self) -> int:
        self.next_t += 1
        return self.next_t - 1

    def pool(self):
        rng, cfg = self.rng, self.cfg
        for _ in range(rng.randint(8, 14) if cfg.get("many_small") else rng.randint(4, 8)):
            s = self.new_t()
            rec, mt = gen_tensor_recipe(rng, cfg, s)
            if cfg.get("many_small") and mt.arr.ndim > 2:
                rec, mt = gen_tensor_recipe(rng, dict(cfg, exotic=False), s)
            self.recipes.append(rec)
            self.tensors[s] = mt
        n = cfg["main_n"]
        for _ in range(rng.randint(0, 2)):
            s = self.new_t()
            cov = rng.random() < 0.5
            nn = rng.choice([n, n, 2, 3])
            self.recipes.append({"slot": s, "k": "eps", "a": [nn, cov]})
            self.tensors[s] = MTensor(W.eps_ref(nn).astype(np.int64), range(nn) if cov else [], [] if cov else range(nn),
                                      int8=True)
        if rng.random() < 0.5:
            s = self.new_t()
            nn, p = rng.choice([(2, 1), (3, 1), (2, 2), (3, 2), (n, 1)])
            self.recipes.append({"slot": s, "k": "delta", "a": [nn, p]})
            self.tensors[s] = MTensor(W.delta_ref(nn, p), range(p), range(p, 2 * p), int8=(p == nn and p > 1))
        # nodes that are instances of the geometric subclasses (this is what the library itself feeds into diagrams)
        if rng.random() < 0.4:
            for _ in range(rng.randint(1, 3)):
                kind = rng.choice(["point", "line", "plane", "transf", "conic", "dualconic"])
                s = self.new_t()
                if kind == "point":
                    d_ = rng.choice([2, 3])
                    v = [rng.randint(-3, 3) for _ in range(d_)] + [1]
                    self.recipes.append({"slot": s, "k": "point", "a": [v], "kw": {"how": "hom", "dt": "i"}})
                    self.tensors[s] = MTensor(np.array(v, dtype=np.int64), [0], [])
                elif kind == "line":
                    v = [rng.randint(-3, 3) or 1 for _ in range(3)]
                    self.recipes.append({"slot": s, "k": "line", "a": [v], "kw": {"dt": "i"}})
                    self.tensors[s] = MTensor(np.array(v, dtype=np.int64), [], [0])
                elif kind == "plane":
                    v = [rng.randint(-3, 3) or 1 for _ in range(4)]
                    self.recipes.append({"slot": s, "k": "plane", "a": [v], "kw": {"dt": "i"}})
                    self.tensors[s] = MTensor(np.array(v, dtype=np.int64), [], [0])
                elif kind == "transf":
                    d_ = rng.choice([3, 4])
                    m = [[rng.randint(-2, 2) + (3 if i == j else 0) for j in range(d_)] for i in range(d_)]
                    self.recipes.append({"slot": s, "k": "transf", "a": [m], "kw": {"dt": "i"}})
                    self.tensors[s] = MTensor(np.array(m, dtype=np.int64), [0], [1])
                else:
                    m = [[0] * 3 for _ in range(3)]
                    for i in range(3):
                        for j in range(i, 3):
                            m[i][j] = m[j][i] = rng.randint(-3, 3)
                    dual = kind == "dualconic"
                    self.recipes.append({"slot": s, "k": "conic", "a": [m], "kw": {"dual": dual, "dt": "i"}})
                    self.tensors[s] = MTensor(np.array(m, dtype=np.int64), [0, 1] if dual else [], [] if dual else [0, 1])
                self.subclass.add(s)
        # two high-rank tensors with axes of length 2 (their tensor product has 17-18 indices but only 2^17-2^18 entries)
        self.highrank = []
        if rng.random() < 0.12:
            for r_ in (9, rng.choice([8, 9])):
                s = self.new_t()
                cov = sorted(rng.sample(range(r_), rng.randint(2, r_ - 2)))
                con = [i for i in range(r_) if i not in cov]
                arr = np.array(_nested(rng, [2] * r_), dtype=np.int64)
                self.recipes.append({"slot": s, "k": "tensor", "a": [arr.tolist()], "kw": {"cov": cov, "dt": "i"}})
                self.tensors[s] = MTensor(arr, cov, con)
                self.highrank.append(s)
            for cov_ in ([], [0]):   # a contravariant and a covariant vector of length 2 to contract them with
                s = self.new_t()
                v = [rng.randint(-3, 3) or 1, rng.randint(-3, 3)]
                self.recipes.append({"slot": s, "k": "tensor", "a": [v], "kw": {"cov": cov_ if cov_ else False, "dt": "i"}})
                self.tensors[s] = MTensor(np.array(v, dtype=np.int64), cov_, [0] if not cov_ else [])
                self.highrank.append(s)
        # second node objects of the same tensor (identity matters)
        for _ in range(rng.randint(1, 3)):
            of = rng.randrange(self.next_t)
            s = self.new_t()
            self.recipes.append({"slot": s, "k": "alias", "a": [of, "copy"]})
            self.tensors[s] = self.tensors[of]
            if of in self.subclass:
                self.subclass.add(s)

    def variant_of(self, t: int) -> int:
        """A pool tensor with the same shape and the same NUMBER of covariant/contravariant axes as t but (if the
        rank allows) at other positions and with other entries: near-collisions for anything keyed by rank/type."""
        if t in self.variant:
            return self.variant[t]
        mt = self.tensors[t]
        r = mt.arr.ndim
        rng = self.rng
        ncov = len(mt.cov)
        cov = list(mt.cov)
        for _ in range(8):
            cand = sorted(rng.sample(range(r), ncov)) if r else []
            if cand != list(mt.cov):
                cov = cand
                break
        con = [i for i in range(r) if i not in cov]
        arr = np.array(_nested(rng, list(mt.arr.shape)), dtype=np.int64) if r else np.array(rng.randint(-3, 3))
        s = self.new_t()
        self.recipes.append({"slot": s, "k": "tensor", "a": [arr.tolist()], "kw": {"cov": cov if cov else False,
                                                                                 "dt": "i"}})
        self.tensors[s] = MTensor(arr, cov, con)
        self.variant[t] = s
        self.variant[s] = t
        return s

    # -- helpers
    def legal_edges(self, d: MDiagram, cands: list[int]):
        out = []
        for s in cands:
            for t in cands:
                if s == t and s not in d.nodes:
                    continue
                dd = d.copy()
                try:
                    dd.add_edge(s, t, self.tensors)
                except ModelError:
                    continue
                if dd.size(self.tensors) <= MAX_ELEMS and sum(self.tensors[x].arr.ndim for x in dd.nodes) <= 24:
                    out.append((s, t))
        return out

    def pick_diagram(self, client):
        ds = [d for d in self.diagrams if not self.private or self.owner[d] == client]
        return self.rng.choice(ds) if ds else None

    def tensor_cands(self, k=5):
        ts = sorted(self.tensors)
        small = [t for t in ts if self.tensors[t].arr.ndim - self.tensors[t].free <= 4]
        return self.rng.sample(small, min(k, len(small)))

    def step(self, i: int) -> dict:
        rng, cfg = self.rng, self.cfg
        client = rng.randrange(cfg["n_clients"])
        if getattr(self, "highrank", None) and len(self.highrank) == 4 and i in (1, 2, 3, 5):
            a, b, vcon, vcov = self.highrank
            if i in (1, 5):
                a, b = (a, b) if i == 1 else (b, a)
                return {"i": i, "c": client, "op": "tprod", "a": a, "b": b}
            # a diagram on a node with nine axes: which axis is its FIRST unused covariant / contravariant one?
            d = MDiagram()
            edges = [[a, vcon], [a, vcon]] if i == 2 else [[vcov, b], [vcov, a]]
            try:
                for s_, t_ in edges:
                    d.add_edge(s_, t_, self.tensors)
            except ModelError:
                edges = edges[:1]
                d = MDiagram()
                d.add_edge(edges[0][0], edges[0][1], self.tensors)
            new = self.next_d
            self.next_d += 1
            self.diagrams[new] = d
            self.owner[new] = client
            self.hist[new] = [["e", x, y] for x, y in edges]
            return {"i": i, "c": client, "op": "new", "d": new, "edges": edges}
        r = rng.random()
        if r < cfg["p_cache_ops"]:
            c = rng.random()
            if c < 0.3:
                return {"i": i, "c": client, "op": "evict", "which": rng.choice([1, 2, 3])}
            if c < 0.7:
                n = rng.choice([1, 2, 3, 4, 5])
                cov = rng.random() < 0.5
                st = {"i": i, "c": client, "op": "eps", "n": n, "cov": cov, "covas": rng.choice(["bool", "bool", "int", "npbool"])}
                if rng.random() < 0.25:
                    # followed by an augmented assignment through a second name: today `x *= c` rebinds x; whatever a
                    # later version does, the epsilon object and the cached array behind it must stay the definition
                    st["aug"] = [rng.choice(["imul", "imul", "idiv", "iadd", "isub", "ipow"]), rng.choice([2, -1, 3])]
                if n <= 4 and rng.random() < 0.5:
                    t = self.new_t()
                    st["to"] = t
                    self.tensors[t] = MTensor(W.eps_ref(n).astype(np.int64), range(n) if cov else [],
                                              [] if cov else range(n), int8=True)
                return st
            n = rng.choice([1, 2, 3, 4])
            p = rng.choice([q for q in (1, 2, 3) if n ** (2 * q) <= 4096])
            st = {"i": i, "c": client, "op": "delta", "n": n, "p": p}
            if rng.random() < 0.25:
                st["aug"] = [rng.choice(["imul", "imul", "idiv", "iadd", "isub", "ipow"]), rng.choice([2, -1, 3])]
            if n ** (2 * p) <= 256 and rng.random() < 0.5:
                t = self.new_t()
                st["to"] = t
                self.tensors[t] = MTensor(W.delta_ref(n, p), range(p), range(p, 2 * p), int8=(p == n and p > 1))
            return st
        d_id = self.pick_diagram(client)
        r = rng.random()
        if d_id is None or r < (0.04 if cfg.get("many_small") else 0.12):
            # new diagram, possibly with initial edges through the constructor
            d = MDiagram()
            edges = []
            cands = self.tensor_cands()
            err = False
            for _ in range(rng.choice([0, 1, 1, 2, 3])):
                legal = self.legal_edges(d, cands)
                if legal and rng.random() < cfg["p_legal"]:
                    e = rng.choice(legal)
                else:
                    e = (rng.choice(cands), rng.choice(cands))
                    if e[0] == e[1] and e[0] not in d.nodes:
                        continue
                edges.append(list(e))
                try:
                    d.add_edge(e[0], e[1], self.tensors)
                except ModelError:
                    err = True
                    break
            new = self.next_d
            self.next_d += 1
            st = {"i": i, "c": client, "op": "new", "d": new, "edges": edges}
            if not err and d.size(self.tensors) <= MAX_ELEMS:
                self.diagrams[new] = d
                self.owner[new] = client
                self.hist[new] = [["e", a, b] for a, b in edges]
            else:
                st["doomed"] = True
            return st
        d = self.diagrams[d_id]
        if r < 0.22 and d.nodes:
            st = {"i": i, "c": client, "op": "calc", "d": d_id}
            arr, ncov, ncon, _b, nfree = d.evaluate(self.tensors)
            if arr.ndim - nfree <= 4 and rng.random() < 0.4:
                t = self.new_t()
                st["to"] = t
                self.tensors[t] = MTensor(arr, range(nfree, nfree + ncov), range(nfree + ncov, nfree + ncov + ncon),
                                          _all_int8(d, self.tensors), free=nfree)
            return st
        if r < 0.30:
            new = self.next_d
            self.next_d += 1
            self.diagrams[new] = d.copy()
            self.owner[new] = client
            self.hist[new] = list(self.hist.get(d_id, []))
            return {"i": i, "c": client, "op": "copy", "d": d_id, "to": new}
        if r < 0.34 and self.hist.get(d_id) and d.nodes:
            # twin diagram: same construction history on same-shaped tensors with another index layout
            mp = {}
            ops = []
            for o in self.hist[d_id]:
                for t in o[1:]:
                    if t not in mp:
                        mp[t] = self.variant_of(t) if self.tensors[t].arr.ndim <= 4 and not self.tensors[t].int8 \
                            and not self.tensors[t].free and t not in self.subclass else t
                ops.append([o[0]] + [mp[t] for t in o[1:]])
            twin = MDiagram()
            ok = True
            try:
                for o in ops:
                    if o[0] == "n":
                        twin.add_node(o[1], self.tensors)
                    else:
                        twin.add_edge(o[1], o[2], self.tensors)
            except ModelError:
                ok = False
            new = self.next_d
            self.next_d += 1
            if ok and twin.size(self.tensors) <= MAX_ELEMS:
                self.diagrams[new] = twin
                self.owner[new] = client
                self.hist[new] = [list(o) for o in ops]   # the step keeps its own list (hist grows with later edges)
                return {"i": i, "c": client, "op": "build", "d": new, "ops": ops}
            return {"i": i, "c": client, "op": "build", "d": new, "ops": ops, "doomed": True}
        if r < 0.38:
            cands = [t for t in self.tensor_cands(8) if t not in d.nodes]
            if cands:
                t = rng.choice(cands)
                dd = d.copy()
                dd.add_node(t, self.tensors)
                if dd.size(self.tensors) <= MAX_ELEMS and sum(self.tensors[x].arr.ndim for x in dd.nodes) <= 24:
                    d.add_node(t, self.tensors)
                    self.hist.setdefault(d_id, []).append(["n", t])
                    return {"i": i, "c": client, "op": "add_node", "d": d_id, "t": t}
        if r < 0.46:
            a, b = rng.choice(self.tensor_cands(8)), rng.choice(self.tensor_cands(8))
            # rank-0 operands make `*` a scalar multiplication (is_numerical_scalar), not a diagram: not generated
            if a != b and self.tensors[a].arr.ndim and self.tensors[b].arr.ndim and not ({a, b} & self.subclass):
                kind = rng.choice(["mul", "mul", "tprod"])
                if self.tensors[a].free or self.tensors[b].free:
                    kind = "mul"   # tensor_product is not implemented for collections
                if self.tensors[a].arr.size * self.tensors[b].arr.size <= MAX_ELEMS:
                    return {"i": i, "c": client, "op": kind, "a": a, "b": b}
        if r < 0.50:
            a = rng.choice(self.tensor_cands(8))
            ra, na = self.tensors[a].arr.ndim, max(self.tensors[a].arr.shape, default=1)
            if ra >= 1 and not self.tensors[a].free and a not in self.subclass:
                ks = [k for k in (1, 2, 3, 4) if na ** (k * ra) <= MAX_ELEMS and k * ra <= 12]
                if ks:
                    return {"i": i, "c": client, "op": "pow", "a": a, "k": rng.choice(ks)}
        if r < 0.53:
            of = rng.choice(sorted(self.tensors))
            t = self.new_t()
            self.tensors[t] = self.tensors[of]
            if of in self.subclass:
                self.subclass.add(t)
            return {"i": i, "c": client, "op": "tcopy", "t": of, "to": t}
        if r < 0.56:
            # a transposed tensor as a new node: its index TYPES travel with the axes (a 3-cycle is not its own
            # inverse, so applying the permutation the wrong way round shows)
            cs = [t_ for t_ in self.tensor_cands(8) if 2 <= self.tensors[t_].arr.ndim <= 5 and not self.tensors[t_].free]
            if cs:
                a = rng.choice(cs)
                mt = self.tensors[a]
                perm = list(range(mt.arr.ndim))
                rng.shuffle(perm)
                t = self.new_t()
                cov_ = set(mt.cov)
                con_ = set(mt.con)
                self.tensors[t] = MTensor(mt.arr.transpose(perm), [i_ for i_, j_ in enumerate(perm) if j_ in cov_],
                                          [i_ for i_, j_ in enumerate(perm) if j_ in con_], mt.int8)
                return {"i": i, "c": client, "op": "ttrans", "a": a, "perm": perm, "to": t}
        # add_edge
        cands = list(dict.fromkeys(d.nodes[-4:] + self.tensor_cands(4)))
        if rng.random() < cfg["p_self_edge_new"]:
            fresh = [t for t in self.tensor_cands(8) if t not in d.nodes and self.tensors[t].cov and self.tensors[t].con
                     and not self.tensors[t].free
                     and max(d.size(self.tensors), 1) * self.tensors[t].arr.size ** 2 <= MAX_ELEMS]
            if fresh:
                t = rng.choice(fresh)
                del self.diagrams[d_id]
                return {"i": i, "c": client, "op": "self_edge_new", "d": d_id, "t": t}
        legal = self.legal_edges(d, cands)
        if legal and rng.random() < cfg["p_legal"]:
            s, t = rng.choice(legal)
        else:
            s, t = rng.choice(cands), rng.choice(cands)
            if s == t and s not in d.nodes:
                return {"i": i, "c": client, "op": "calc", "d": d_id} if d.nodes else \
                    {"i": i, "c": client, "op": "evict", "which": 3}
        st = {"i": i, "c": client, "op": "add_edge", "d": d_id, "s": s, "t": t}
        try:
            d.add_edge(s, t, self.tensors)
            self.hist.setdefault(d_id, []).append(["e", s, t])
            if d.size(self.tensors) > MAX_ELEMS or sum(self.tensors[x].arr.ndim for x in d.nodes) > 24:
                del self.diagrams[d_id]   # too big for the exact model: never evaluated again
                st["retire"] = True
        except ModelError:
            pass                          # a rejected edge leaves the diagram as it was (since /repo ee8c085)
        return st

    def generate(self) -> dict:
        self.pool()
        for i in range(self.cfg["n_steps"]):
            self.steps.append(self.step(i))
        return {"version": 1, "property": "C05", "cfg": self.cfg, "private": self.private, "recipes": self.recipes,
                "steps": self.steps}


# ---------------------------------------------------------------------------------------------------------------------
# expectations: the model run over the program (pure)


def model_tensors_from_recipes(recipes) -> dict[int, MTensor]:
    ts: dict[int, MTensor] = {}
    for r in recipes:
        k, a, kw = r["k"], r.get("a", []), r.get("kw", {})
        if k == "tensor":
            arr = np.array(a[0]).astype(np.int64)
            cov = kw.get("cov", True)
            cov = list(range(arr.ndim)) if cov is True else ([] if cov is False else list(cov))
            ts[r["slot"]] = MTensor(arr, cov, [i for i in range(arr.ndim) if i not in cov],
                                    int8=NARROW_CAP.get(kw.get("dt"), 0))
        elif k == "ctensor":
            arr = np.array(a[0], dtype=np.int64) + 1j * np.array(a[1], dtype=np.int64)
            cov = list(kw.get("cov", []))
            ts[r["slot"]] = MTensor(arr, cov, [i for i in range(arr.ndim) if i not in cov])
        elif k == "tensorcoll":
            arr = np.array(a[0]).astype(np.int64)
            rel = kw.get("cov", True)
            rank = kw.get("rank", 1)
            nf = arr.ndim - rank
            rel = list(range(rank)) if rel is True else ([] if rel is False else list(rel))
            cov = [nf + i for i in rel]
            ts[r["slot"]] = MTensor(arr, cov, [i for i in range(nf, arr.ndim) if i not in cov],
                                    int8=NARROW_CAP.get(kw.get("dt"), 0), free=nf)
        elif k == "point":
            ts[r["slot"]] = MTensor(np.array(a[0], dtype=np.int64), [0], [])
        elif k in ("line", "plane"):
            ts[r["slot"]] = MTensor(np.array(a[0], dtype=np.int64), [], [0])
        elif k == "transf":
            ts[r["slot"]] = MTensor(np.array(a[0], dtype=np.int64), [0], [1])
        elif k == "conic":
            m = np.array(a[0], dtype=np.int64)
            ts[r["slot"]] = MTensor(m, [0, 1] if kw.get("dual") else [], [] if kw.get("dual") else [0, 1])
        elif k == "eps":
            n, cov = a
            ts[r["slot"]] = MTensor(W.eps_ref(n).astype(np.int64), range(n) if cov else [], [] if cov else range(n), True)
        elif k == "delta":
            n, p = a
            ts[r["slot"]] = MTensor(W.delta_ref(n, p), range(p), range(p, 2 * p), int8=(p == n and p > 1))
        elif k == "alias":
            if a[0] in ts:
                ts[r["slot"]] = ts[a[0]]
    return ts


def expectations(case: dict, state: dict | None = None) -> dict[int, tuple]:
    """step index -> ('ok', payload) | ('error',) | ('skip',) predicted by the model in program order.
    If `state` is given it receives the model's final tensors and diagrams."""
    ts = model_tensors_from_recipes(case["recipes"])
    ds: dict[int, MDiagram] = {}
    exp: dict[int, tuple] = {}
    removed = set(case.get("removed", []))
    for st in case["steps"]:
        i, op = st["i"], st["op"]
        if i in removed:
            exp[i] = ("skip",)
            continue
        try:
            if op == "evict":
                exp[i] = ("ok", None)
            elif op == "eps":
                n, cov = st["n"], st["cov"]
                mt = MTensor(W.eps_ref(n).astype(np.int64), range(n) if cov else [], [] if cov else range(n), True)
                exp[i] = ("ok", (mt.arr, len(mt.cov), len(mt.con), 0.0, 0, 0))
                if "to" in st:
                    ts[st["to"]] = mt
            elif op == "delta":
                n, p = st["n"], st["p"]
                mt = MTensor(W.delta_ref(n, p), range(p), range(p, 2 * p), int8=(p == n and p > 1))
                exp[i] = ("ok", (mt.arr, p, p, 0.0, 0, 0))
                if "to" in st:
                    ts[st["to"]] = mt
            elif op == "tcopy":
                if st["t"] not in ts:
                    exp[i] = ("skip",)
                else:
                    ts[st["to"]] = ts[st["t"]]
                    exp[i] = ("ok", None)
            elif op == "new":
                d = MDiagram()
                if any(x not in ts for e in st["edges"] for x in e):
                    exp[i] = ("skip",)
                    continue
                try:
                    for s, t in st["edges"]:
                        d.add_edge(s, t, ts)
                    if not st.get("doomed"):
                        ds[st["d"]] = d
                    exp[i] = ("ok", None)
                except ModelError:
                    exp[i] = ("error",)
            elif op == "build":
                if any(t not in ts for o in st["ops"] for t in o[1:]):
                    exp[i] = ("skip",)
                    continue
                d = MDiagram()
                try:
                    for o in st["ops"]:
                        if o[0] == "n":
                            d.add_node(o[1], ts)
                        else:
                            d.add_edge(o[1], o[2], ts)
                    if not st.get("doomed"):
                        ds[st["d"]] = d
                    exp[i] = ("ok", None)
                except ModelError:
                    exp[i] = ("error",)
            elif op in ("add_node", "add_edge", "copy", "calc", "self_edge_new"):
                d = ds.get(st["d"])
                if d is None or any(st.get(k) is not None and st[k] not in ts for k in ("s", "t") if k in st):
                    exp[i] = ("skip",)
                    continue
                if op == "add_node":
                    if st["t"] in d.nodes:
                        exp[i] = ("skip",)
                        continue
                    d.add_node(st["t"], ts)
                    exp[i] = ("ok", None)
                elif op == "add_edge":
                    if st["s"] == st["t"] and st["s"] not in d.nodes:
                        exp[i] = ("skip",)
                        continue
                    try:
                        d.add_edge(st["s"], st["t"], ts)
                        exp[i] = ("ok", None)
                        if st.get("retire"):
                            del ds[st["d"]]
                    except ModelError:
                        exp[i] = ("error",)   # the diagram stays usable and unchanged
                elif op == "self_edge_new":
                    dd = ds.pop(st["d"])
                    if st["t"] in dd.nodes:
                        exp[i] = ("skip",)
                        continue
                    try:
                        dd.add_edge(st["t"], st["t"], ts)
                        exp[i] = ("ok", dd.evaluate(ts) + (_all_int8(dd, ts),))
                    except ModelError:
                        exp[i] = ("error",)
                elif op == "copy":
                    ds[st["to"]] = d.copy()
                    exp[i] = ("ok", None)
                else:
                    if not d.nodes:
                        exp[i] = ("skip",)
                        continue
                    val = d.evaluate(ts)
                    exp[i] = ("ok", val + (_all_int8(d, ts),))
                    if "to" in st:
                        nf = val[4]
                        ts[st["to"]] = MTensor(val[0], range(nf, nf + val[1]), range(nf + val[1], nf + val[1] + val[2]),
                                               _all_int8(d, ts), free=nf)
            elif op == "ttrans":
                if st["a"] not in ts:
                    exp[i] = ("skip",)
                    continue
                mt = ts[st["a"]]
                perm = st["perm"]
                cov_, con_ = set(mt.cov), set(mt.con)
                nt = MTensor(mt.arr.transpose(perm), [i_ for i_, j_ in enumerate(perm) if j_ in cov_],
                             [i_ for i_, j_ in enumerate(perm) if j_ in con_], mt.int8)
                ts[st["to"]] = nt
                exp[i] = ("ok", (nt.arr, -1, -1, 0.0, 0, 0, nt.cov, nt.con))
            elif op in ("mul", "tprod", "pow"):
                a = st["a"]
                if a not in ts or ("b" in st and st["b"] not in ts) or ts[a].arr.ndim == 0 or \
                        ("b" in st and ts[st["b"]].arr.ndim == 0):
                    exp[i] = ("skip",)
                    continue
                d = MDiagram()
                tmp = dict(ts)
                try:
                    if op == "mul":       # a * b == TensorDiagram((b, a))
                        d.add_edge(st["b"], a, tmp)
                    elif op == "tprod":   # edgeless diagram of a, b
                        d.add_node(a, tmp)
                        d.add_node(st["b"], tmp)
                    else:
                        k = st["k"]
                        if k == 1:
                            mt = ts[a]
                            exp[i] = ("ok", (mt.arr, -1, -1, 0.0, mt.free, 0, mt.cov, mt.con))
                            continue
                        prev = a
                        for j in range(k - 1):
                            cur = -1000 - j
                            tmp[cur] = ts[a]
                            d.add_edge(cur, prev, tmp)
                            prev = cur
                    exp[i] = ("ok", d.evaluate(tmp) + (_all_int8(d, tmp),))
                except ModelError:
                    exp[i] = ("error",)
            else:
                exp[i] = ("skip",)
        except MemoryError:
            exp[i] = ("skip",)
    if state is not None:
        state["ts"], state["ds"] = ts, ds
    return exp


def _all_int8(d: MDiagram, ts) -> int:
    """0 if some node has a wide dtype; otherwise the largest value the (narrow) result dtype can hold: 127 if an
    int8 node takes part, 1 if all nodes are bool. numpy keeps the narrow dtype when ALL operands have it."""
    # rank-0 nodes do not widen the result: numpy 1.x promotes 0-d operands by VALUE (a 0-d int64 holding -1
    # counts as int8), so int8 x int8 x scalar stays int8
    caps = [ts[t].int8 for t in d.nodes if ts[t].arr.ndim > 0]
    if not caps:
        # ... but when EVERY operand is 0-d there is nothing to defer to and the ordinary dtype promotion applies
        # (two 0-d int8 nodes holding 40: 1600 does not fit, numpy answers 64) -- soak seed 926554678202
        caps = [ts[t].int8 for t in d.nodes]
    if not caps or any(c == 0 for c in caps):
        return 0
    return max(caps)


# ---------------------------------------------------------------------------------------------------------------------
# execution against the library


def mk_violation(step, kind, detail, flags=()) -> dict:
    tag = "|".join(sorted(flags)) if flags else kind
    v = {"prop": "C05", "oracle": "M5", "step": step["i"], "op": step["op"], "kind": kind, "detail": detail}
    v["signature"] = f"M5|{step['op']}|{tag}"
    return v


def compare_value(step, got, exp_payload, flags=()) -> dict | None:
    arr, ncov, ncon, bound, nfree, all_int8 = exp_payload[:6]
    if isinstance(got, BaseException):
        return mk_violation(step, "unexpected-exception",
                            f"model predicts a value, library raised {type(got).__name__}: {got}", flags)
    if not isinstance(got, Tensor):
        return mk_violation(step, "not-a-tensor", f"library returned {type(got).__name__}", flags)
    if got.array.dtype.kind in "fc" and bound > 2.0 ** 52:
        return "skip"  # partial sums beyond 2^53 are not exact in floating point: summation order would matter
    if all_int8 and bound > int(all_int8):
        return "skip"  # overflow of all-int8 (epsilon) / all-bool diagrams is an input/dtype matter, out of scope here
    if len(exp_payload) > 6:
        cov, con = exp_payload[6], exp_payload[7]
        if sorted(got._covariant_indices) != list(cov) or sorted(got._contravariant_indices) != list(con):
            return mk_violation(step, "index-types", f"expected cov={list(cov)} con={list(con)}, got "
                                f"cov={sorted(got._covariant_indices)} con={sorted(got._contravariant_indices)}", flags)
    else:
        if got.tensor_shape != (ncov, ncon) or sorted(got._covariant_indices) != list(range(nfree, nfree + ncov)) or \
                sorted(got._contravariant_indices) != list(range(nfree + ncov, nfree + ncov + ncon)) or \
                got.free_indices != nfree:
            return mk_violation(step, "index-types",
                                f"expected type ({ncov},{ncon}) covariant-first after {nfree} collection axis, got "
                                f"{got.tensor_shape} free={got.free_indices} "
                                f"cov={sorted(got._covariant_indices)} con={sorted(got._contravariant_indices)}", flags)
    if got.array.shape != arr.shape:
        return mk_violation(step, "shape", f"expected shape {arr.shape}, got {got.array.shape}", flags)
    if not np.array_equal(got.array, arr):
        bad = np.argwhere(np.asarray(got.array) != arr)
        idx = tuple(int(x) for x in bad[0]) if len(bad) else ()
        return mk_violation(step, "value", f"{len(bad)} of {arr.size} entries differ; first at {idx}: expected "
                            f"{arr[idx] if arr.ndim else arr}, got {got.array[idx] if arr.ndim else got.array}", flags)
    return None


def _with_aug(e, aug):
    """`x = e; x <op>= c` through a second name; returns e itself (which the step goes on to judge)."""
    if aug:
        how, c = aug
        x = e
        if how == "imul":
            x *= c
        elif how == "idiv":
            x /= c
        elif how == "iadd":
            x += c
        elif how == "isub":
            x -= c
        else:
            x **= 1
    return e


class Exec:
    """Executes a C05 program against geometer with the model's expectations in lock-step."""

    def __init__(self, case, exp, plan, stats, model_state=None):
        self.case, self.exp, self.plan, self.stats = case, exp, plan or {}, stats
        self.model_state = model_state or {}
        self.world = W.World()
        W.canonical_start(case["cfg"].get("warm", []))
        self.build_errors = self.world.build(case["recipes"])
        self.T = self.world.slots       # tensor slots
        self.D: dict[int, TensorDiagram] = {}
        self.retired: set[int] = set()
        self.faults = {f["step"]: f for f in self.plan.get("faults", [])}
        self.evicts = {e["step"]: e for e in self.plan.get("evict_mid", [])}
        self.hist: dict[int, dict] = {}
        self.corrupted = None

    # one library call under the seam
    def call(self, st, ctx, fn):
        f = self.faults.get(st["i"])
        if f is not None:
            ctx.fault_at = f["at"]
            ctx.fault_exc = (seam.SimInterrupt if f["kind"] == "async_interrupt" else seam.SimMemoryError)(
                f"injected {f['kind']}")
        e = self.evicts.get(st["i"])
        if e is not None:
            ctx.evict_at = e["at"]
            w = e["which"]
            ctx.evict_fn = lambda: W.evict_caches(w)
        ctx.begin()
        try:
            r = fn()
        except seam.StepBudgetExceeded:
            ctx.end()
            return "budget", None, False
        except BaseException as ex:  # noqa: BLE001
            r = ex
        faulted = ctx.fault_site is not None or ctx.evicted_site is not None
        if ctx.fault_site is not None:
            k = seam.site_str(ctx.fault_site)
            self.stats["fault_sites"][k] = self.stats["fault_sites"].get(k, 0) + 1
            ff = self.stats["faults_fired"]
            ff[f["kind"]] = ff.get(f["kind"], 0) + 1
        elif f is not None:
            self.stats["faults_fired"]["async_not_reached"] = self.stats["faults_fired"].get("async_not_reached", 0) + 1
        if ctx.evicted_site is not None:
            self.stats["faults_fired"]["cache_evict_mid"] = self.stats["faults_fired"].get("cache_evict_mid", 0) + 1
        n = ctx.end()
        self.stats["lines"] += n
        return r, n, faulted

    def step(self, st, ctx) -> dict | None:
        """Returns a violation or None; records history."""
        i, op = st["i"], st["op"]
        e = self.exp.get(i, ("skip",))
        h = {"i": i, "op": op, "status": "ok", "lines": 0}
        self.hist[i] = h
        if e[0] == "skip":
            h["status"] = "skipped"
            return None
        T, D = self.T, self.D
        need_t = [st[k] for k in ("t", "s", "a", "b") if k in st and op != "eps"]
        if op == "new":
            need_t = [x for ed in st["edges"] for x in ed]
        if op == "build":
            need_t = [x for o in st["ops"] for x in o[1:]]
        if any(x not in T for x in need_t) or ("d" in st and op not in ("new", "build") and st["d"] not in D):
            h["status"] = "skipped"
            if op in ("add_node", "add_edge", "self_edge_new"):
                D.pop(st["d"], None)  # model and library would diverge: retire the diagram
            return None
        self.stats["steps"] += 1
        mut_target = None
        if op == "evict":
            W.evict_caches(st["which"])
            return None
        if op == "eps":
            flag = st["cov"]
            how = st.get("covas", "bool")
            flag = {"bool": flag, "int": int(flag), "npbool": np.bool_(flag)}[how]
            fn = lambda: _with_aug(LeviCivitaTensor(st["n"], flag), st.get("aug"))  # noqa: E731
        elif op == "delta":
            fn = lambda: _with_aug(KroneckerDelta(st["n"], st["p"]), st.get("aug"))  # noqa: E731
        elif op == "tcopy":
            fn = lambda: T[st["t"]].copy()  # noqa: E731
        elif op == "new":
            fn = lambda: TensorDiagram(*[(T[s], T[t]) for s, t in st["edges"]])  # noqa: E731
        elif op == "build":
            def fn():
                d = TensorDiagram()
                for o in st["ops"]:
                    if o[0] == "n":
                        d.add_node(T[o[1]])
                    else:
                        d.add_edge(T[o[1]], T[o[2]])
                return d
        elif op == "add_node":
            mut_target = st["d"]
            fn = lambda: D[st["d"]].add_node(T[st["t"]])  # noqa: E731
        elif op == "add_edge":
            mut_target = st["d"]
            fn = lambda: D[st["d"]].add_edge(T[st["s"]], T[st["t"]])  # noqa: E731
        elif op == "self_edge_new":
            mut_target = st["d"]

            def fn():
                d = D[st["d"]]
                d.add_edge(T[st["t"]], T[st["t"]])
                return d.calculate()
        elif op == "copy":
            fn = lambda: D[st["d"]].copy()  # noqa: E731
        elif op == "calc":
            fn = lambda: D[st["d"]].calculate()  # noqa: E731
        elif op == "mul":
            fn = lambda: T[st["a"]] * T[st["b"]]  # noqa: E731
        elif op == "tprod":
            fn = lambda: T[st["a"]].tensor_product(T[st["b"]])  # noqa: E731
        elif op == "pow":
            fn = lambda: T[st["a"]] ** st["k"]  # noqa: E731
        elif op == "ttrans":
            fn = lambda: T[st["a"]].transpose(st["perm"])  # noqa: E731
        else:
            raise ValueError(op)
        r, n, faulted = self.call(st, ctx, fn)
        h["lines"] = n or 0
        if isinstance(r, str) and r == "budget":
            h["status"] = "budget"
            if mut_target is not None:
                D.pop(mut_target, None)
            return None
        if faulted:
            # the faulted step's own outcome is unconstrained; an interrupted builder call retires the diagram
            h["status"] = "faulted"
            if mut_target is not None:
                D.pop(mut_target, None)
            return None
        h["ws"] = list(ctx.ws_ordinals) if ctx.trace_ws and ctx.ws_ordinals else []
        is_exc = isinstance(r, BaseException)
        if e[0] == "error":
            self.stats["predicted_errors"] = self.stats.get("predicted_errors", 0) + 1
            if op == "self_edge_new":
                D.pop(st["d"], None)
            if not isinstance(r, TensorComputationError):
                return mk_violation(st, "missing-error", "model predicts TensorComputationError (no index left / "
                                    f"dimension mismatch), library {'raised ' + type(r).__name__ + ': ' + str(r) if is_exc else 'returned a value'}")
            return None
        # model predicts success
        if op in ("calc", "mul", "tprod", "pow", "eps", "delta", "self_edge_new", "ttrans"):
            flags = ("self-edge-on-unregistered-node",) if op == "self_edge_new" else ()
            v = compare_value(st, r, e[1], flags)
            self.stats["values_compared"] = self.stats.get("values_compared", 0) + 1
            if op == "self_edge_new":
                D.pop(st["d"], None)
            if isinstance(v, str):   # narrow-dtype overflow: not judged, and the result is not used as a node either
                self.stats["narrow_dtype_skips"] = self.stats.get("narrow_dtype_skips", 0) + 1
                return None
            if v is not None:
                return v
            if "to" in st and not is_exc:
                self.world.put(st["to"], r, f"step{i}:{op}")
            return None
        if is_exc:
            if mut_target is not None:
                D.pop(mut_target, None)
            return mk_violation(st, "unexpected-exception",
                                f"model predicts success, library raised {type(r).__name__}: {r}")
        if op == "tcopy":
            self.world.put(st["to"], r, f"step{i}:tcopy")
        elif op in ("new", "build"):
            if not st.get("doomed"):
                D[st["d"]] = r
        elif op == "copy":
            D[st["to"]] = r
        if st.get("retire"):
            D.pop(st["d"], None)
        return None

    def invariants(self, st) -> dict | None:
        """After every step: caches equal their definitions (C05 clause 3); operands untouched (harness honesty)."""
        for name, path, kind in W.check_caches():
            return mk_violation(st, "cache", f"{name}{path}: {kind}")
        bad = self.world.check(None)
        if bad:
            self.corrupted = f"operand {bad[0][0]}{bad[0][1]} changed ({bad[0][2]}) - a C12 matter, run retired"
        return None


def run_case(case: dict, plan: dict | None, stats: dict, trace_ws=False) -> tuple[dict | None, dict, str | None]:
    """Executes the case in the mode given by the plan. Returns (violation, history by step, corruption note)."""
    mstate: dict = {}
    exp = expectations(case, mstate)
    ex = Exec(case, exp, plan, stats, mstate)
    removed = set(case.get("removed", []))
    steps = [s for s in case["steps"] if s["i"] not in removed]
    mode = (plan or {}).get("exec", "seq")
    if mode == "seq":
        ctx = seam.Ctx()
        ctx.trace_ws = trace_ws
        seam.set_ctx(ctx)
        for st in steps:
            v = ex.step(st, ctx)
            if v is None:
                v = ex.invariants(st)
            if v is not None or ex.corrupted:
                return v, ex.hist, ex.corrupted
        return final_checks(ex, steps), ex.hist, ex.corrupted
    # PREEMPT: diagrams are private to their owner client, tensors and caches are shared
    ncl = case["cfg"]["n_clients"]
    client_steps = {c: [] for c in range(ncl)}
    producer = {}
    for st in steps:
        client_steps[st["c"] % ncl].append(st)
        if "to" in st:
            producer[("d" if st["op"] == "copy" else "t", st["to"])] = st["i"]
        if st["op"] == "new":
            producer[("d", st["d"])] = st["i"]
    done: set[int] = set()
    viol: list = []

    def exec_fn(st, ctx):
        v = ex.step(st, ctx)
        done.add(st["i"])
        return v

    def needs(st):
        out = []
        if st["op"] == "new":
            out += [("t", x) for ed in st["edges"] for x in ed]
        else:
            out += [("t", st[k]) for k in ("t", "s", "a", "b") if k in st and st["op"] not in ("eps", "delta")]
            if "d" in st:
                out.append(("d", st["d"]))
        return out

    def ready_fn(st, any_mid):
        if st["op"] == "evict" and any_mid:
            return False
        for key in needs(st):
            p = producer.get(key)
            if p is not None and p not in done and p != st["i"]:
                return False
        return True

    def on_entry(now, inflight, cl):
        for st, v in now:
            if v is not None:
                return v
        st = now[0][0] if now else (cl.cur or cl.steps[min(cl.pos, len(cl.steps) - 1)])
        v = ex.invariants(st)
        if v is not None:
            mid = [f"client{x.cid}:{x.cur['op']}@line{x.ctx.n}({seam.site_str(x.ctx.last_site)})"
                   for x in inflight if x.midstep]
            v["detail"] += f" [PREEMPT; suspended mid-operation: {mid}]"
            return v
        if ex.corrupted:
            return {"corrupted": True}
        return None

    dec = sched.Decisions(plan["sched_seed"], plan.get("quantum_mean", 30), replay=plan.get("grants"))
    try:
        v = sched.run(client_steps, exec_fn, ready_fn, on_entry, dec, stats)
    finally:
        plan["grants_realised"] = dec.record
    if v is not None and v.get("corrupted"):
        return None, ex.hist, ex.corrupted
    if v is not None:
        return v, ex.hist, ex.corrupted
    seam.set_ctx(seam.Ctx())
    return final_checks(ex, steps), ex.hist, ex.corrupted


def final_checks(ex: Exec, steps) -> dict | None:
    """After the last fault: every surviving diagram still evaluates to the model's value; epsilon/delta are right."""
    ctx = seam.Ctx()
    seam.set_ctx(ctx)
    # model state at the end of the program (computed together with the expectations)
    ts, ds = ex.model_state["ts"], ex.model_state["ds"]
    last = {"i": len(ex.case["steps"]), "op": "final"}
    for d_id in sorted(ex.D):
        if d_id not in ds or not ds[d_id].nodes:
            continue
        md = ds[d_id]
        if any(t not in ex.T for t in md.nodes):
            continue
        st = {"i": last["i"], "op": "calc", "d": d_id}
        ctx.begin()
        try:
            r = ex.D[d_id].calculate()
        except BaseException as e2:  # noqa: BLE001
            r = e2
        ex.stats["lines"] += ctx.end()
        v = compare_value(st, r, md.evaluate(ts) + (_all_int8(md, ts),), md.flags)
        ex.stats["values_compared"] = ex.stats.get("values_compared", 0) + 1
        if v is not None and not isinstance(v, str):
            v["detail"] = f"final evaluation of diagram {d_id}: " + v["detail"]
            return v
    for n in (1, 2, 3, 4):
        for cov in (True, False):
            e = LeviCivitaTensor(n, cov)
            if not np.array_equal(e.array, W.eps_ref(n)) or e.tensor_shape != ((n, 0) if cov else (0, n)):
                return mk_violation({"i": last["i"], "op": "eps"}, "value", f"epsilon({n},{cov}) differs from its "
                                    "definition at the end of the run")
    for n, p in ((2, 1), (2, 2), (3, 2), (3, 3), (4, 2)):
        d = KroneckerDelta(n, p)
        if not np.array_equal(d.array, W.delta_ref(n, p)) or d.tensor_shape != (p, p):
            return mk_violation({"i": last["i"], "op": "delta"}, "value", f"delta({n},{p}) differs from its "
                                "definition at the end of the run")
    for name, path, kind in W.check_caches():
        return mk_violation({"i": last["i"], "op": "final"}, "cache", f"{name}{path}: {kind}")
    return None


# ---------------------------------------------------------------------------------------------------------------------
# one seeded run


CONFIGS = ["seq", "seq_faults", "preempt", "preempt_faults"]


def gen_plan(rng, cfg, config, hist, steps) -> dict:
    plan = {"exec": "preempt" if config.startswith("preempt") else "seq", "config": config, "faults": [],
            "evict_mid": [], "sched_seed": rng.getrandbits(48), "quantum_mean": cfg["quantum_mean"]}
    if not config.endswith("faults"):
        return plan
    cand = [s for s in steps if hist.get(s["i"], {}).get("lines", 0) > 0 and hist[s["i"]]["status"] == "ok"]
    if not cand:
        return plan
    used = set()
    for _ in range(max(1, cfg["n_faults"])):
        st = rng.choice(cand)
        if st["i"] in used:
            continue
        used.add(st["i"])
        h = hist[st["i"]]
        ws = h.get("ws") or []
        at = rng.choice(ws) if ws and rng.random() < 0.5 else rng.randint(1, h["lines"])
        k = rng.choice(["async_interrupt", "async_memerr", "cache_evict"])
        if k == "cache_evict" and plan["exec"] == "preempt":
            k = "async_interrupt"
        if k == "cache_evict":
            plan["evict_mid"].append({"step": st["i"], "at": at, "which": rng.choice([1, 2, 3])})
        else:
            plan["faults"].append({"step": st["i"], "kind": k, "at": at})
    return plan


def new_stats():
    return {"steps": 0, "lines": 0, "faults_fired": {}, "fault_sites": {}, "switch_sites": {}, "preemptions": 0,
            "values_compared": 0, "predicted_errors": 0, "corrupted_runs": 0, "by_op": {}}


def hist_digest(hist: dict) -> str:
    h = hashlib.blake2b(digest_size=10)
    for i in sorted(hist):
        x = hist[i]
        h.update(repr((i, x["op"], x["status"], x.get("lines"))).encode())
    return h.hexdigest()


def run_c05_seed(seed: int, want_sample: bool = False) -> dict:
    from . import runner

    runner.worker_init()
    t0 = time.perf_counter()
    stats = new_stats()
    res = {"seed": seed, "violation": None, "stats": stats, "harness_error": None}
    try:
        rng = random.Random(seed)
        cfg = make_cfg(rng)
        config = CONFIGS[rng.randrange(4)]
        private = config.startswith("preempt")
        if cfg["cold_start"] is False:
            cand = [["e", 2], ["e", 3], ["e", 4], ["d", 3, 2], ["d", 2, 2], ["d", 3, 3]]
            rng.shuffle(cand)
            cfg["warm"] = cand[: rng.randint(1, len(cand))]
        case = ProgGen(rng, cfg, private).generate()
        case["seed"] = seed
        res["config"] = config
        v, hist, corrupted = run_case(case, None, stats, trace_ws=True)
        res["golden_digest"] = hist_digest(hist)
        for st in case["steps"]:
            hh = hist.get(st["i"])
            if hh and hh["status"] == "ok":
                stats["by_op"][st["op"]] = stats["by_op"].get(st["op"], 0) + 1
        sig = hashlib.blake2b(repr([(s["c"] if private else 0, s["op"], hist.get(s["i"], {}).get("status"))
                                    for s in case["steps"]] + [case["recipes"][0]["k"]]).encode(), digest_size=10)
        res["hsig"] = sig.hexdigest() + hist_digest(hist)[:6]
        res["nontrivial"] = sum(1 for s in case["steps"] if s["op"] in ("add_edge", "new", "copy", "add_node")
                                and hist.get(s["i"], {}).get("status") == "ok") >= 2
        if v is None and not corrupted and config != "seq":
            plan = gen_plan(rng, cfg, config, hist, case["steps"])
            case["plan"] = plan
            v, hist2, corrupted = run_case(case, plan, stats)
            res["faulted_digest"] = hist_digest(hist2) + hashlib.blake2b(
                repr(plan.get("grants_realised")).encode(), digest_size=6).hexdigest()
            if plan["exec"] == "preempt":
                res["sched_sig"] = hashlib.blake2b(repr(plan.get("grants_realised")).encode(), digest_size=8).hexdigest()
                res["hsig"] += res["sched_sig"][:12]
        if corrupted:
            stats["corrupted_runs"] += 1
            W.evict_caches(3)
            runner.restore_globals()
        if v is not None:
            res["violation"] = v
            if "plan" in case and "grants_realised" in case["plan"]:
                case["plan"]["grants"] = case["plan"].pop("grants_realised")
            res["case"] = case
            W.evict_caches(3)
        elif want_sample:
            res["sample"] = {"seed": seed, "config": config, "clients": cfg["n_clients"], "private_diagrams": private,
                             "tensors": [f"{r['slot']}:{r['k']}" for r in case["recipes"]],
                             "program": [_fmt(s, hist.get(s["i"], {})) for s in case["steps"][:32]],
                             "plan": {k: case.get("plan", {}).get(k) for k in ("faults", "evict_mid")},
                             "schedule_head": (case.get("plan") or {}).get("grants_realised", [])[:12]}
    except Exception as e:  # noqa: BLE001
        res["harness_error"] = f"{type(e).__name__}: {e}\n{traceback.format_exc()}"
    finally:
        seam.set_ctx(None)
    res["wall"] = time.perf_counter() - t0
    return res


def _fmt(s, h):
    keys = [k for k in ("d", "to", "s", "t", "a", "b", "k", "n", "p", "cov", "which", "edges") if k in s]
    return f"c{s['c']} {s['op']}(" + ", ".join(f"{k}={s[k]}" for k in keys) + f") -> {h.get('status', '?')}"


def replay_case(case: dict) -> dict:
    from . import runner
    import json

    runner.worker_init()
    stats = new_stats()
    res = {"violation": None, "harness_error": None, "stats": stats}
    try:
        case = json.loads(json.dumps(case))
        if "table" in case and case["table"] in ("chain", "product"):
            k = case["k"]
            try:
                if case["table"] == "chain":
                    ts = [Tensor(np.array([[float(i % 5 + 2)]]), covariant=[0]) for i in range(k)]
                    TensorDiagram(*[(ts[i + 1], ts[i]) for i in range(k - 1)]).calculate()
                else:
                    d = TensorDiagram()
                    for i in range(k):
                        d.add_node(Tensor([2.0]))
                    d.calculate()
            except Exception as e:  # noqa: BLE001
                v = mk_violation({"i": 0, "op": "calc"}, "einsum-limit", f"{type(e).__name__}: {e}")
                v["signature"] = ("M5|calc|einsum-limit-total-rank-above-52" if case["table"] == "chain"
                                  else "M5|calc|einsum-limit-more-than-32-nodes")
                res["violation"] = v
            return res
        if "table" in case:
            W.evict_caches(3)
            calls = case.get("history")
            if calls is None:   # files written before the history form
                calls = [["e", case["n"], case["cov"]]] if case["table"] == "eps" else [["d", case["n"], case["p"]]]
            err = None
            for call in calls:
                err = _table_call(call)
            if err is not None:
                res["violation"] = mk_violation({"i": 0, "op": "eps" if calls[-1][0] == "e" else "delta"}, "value", err)
            W.evict_caches(3)
            return res
        v, hist, corrupted = run_case(case, None, stats)
        if v is None and case.get("plan"):
            plan = dict(case["plan"])
            v, hist, corrupted = run_case(case, plan, stats)
        res["violation"] = v
        W.evict_caches(3)
    except Exception as e:  # noqa: BLE001
        res["harness_error"] = f"{type(e).__name__}: {e}\n{traceback.format_exc()}"
    finally:
        seam.set_ctx(None)
    return res


# ---------------------------------------------------------------------------------------------------------------------
# exhaustive part: every entry of epsilon(n) and delta(n, p) for all sizes in range


def _table_call(call):
    """One constructor call of the table check; returns an error text or None."""
    if call[0] == "e":
        _, n, cov = call
        e = LeviCivitaTensor(n, cov)
        ref = W.eps_ref(n)
        ok = e.array.shape == ref.shape and np.array_equal(e.array, ref) and e.tensor_shape == ((n, 0) if cov else (0, n))
        return None if ok else f"epsilon({n}, covariant={cov}) differs from the inversion-parity definition"
    _, n, p = call
    d = KroneckerDelta(n, p)
    ref = W.delta_def(n, p)
    ok = d.array.shape == ref.shape and np.array_equal(d.array, ref) and d.tensor_shape == (p, p)
    return None if ok else f"delta({n},{p}) differs from the determinant definition"


def exhaustive_tables(tier: str) -> tuple[dict, list]:
    """Entry-by-entry comparison for every size in range, cold and warm, both variances, in several construction
    orders (the constructors cache, and may derive one family from the other, so the order of first use is a history
    the definition must not depend on). A violation's replay is the list of constructor calls since the last
    eviction."""
    t0 = time.time()
    nmax = 8   # epsilon(8): 16.7M int8 entries, 0.1 s; n = 9 needs 387 MB
    cap = 120_000 if tier == "quick" else 2_000_000
    pairs = [(n, p) for n in range(1, 10) for p in range(1, n + 1) if n ** (2 * p) <= cap]
    eps_calls = [["e", n, cov] for n in range(1, nmax + 1) for cov in (True, False)]
    delta_calls = [["d", n, p] for n, p in pairs]
    orders = {
        "epsilon ascending": eps_calls,
        "epsilon descending": eps_calls[::-1],
        "delta ascending": delta_calls,
        "delta descending": delta_calls[::-1],
        "delta with every epsilon cached, then epsilon again": eps_calls + delta_calls + eps_calls,
        "epsilon with every delta cached": delta_calls + eps_calls,
    }
    entries = 0
    viol = []
    for order, calls in orders.items():
        W.evict_caches(3)
        hist = []
        for call in calls:
            for attempt in ("miss-or-hit", "hit"):
                hist.append(call)
                with seam.paused():
                    err = _table_call(call)
                entries += call[1] ** (call[1] if call[0] == "e" else 2 * call[2])
                if err is not None and not any(v["replay"]["history"][-1] == call for v in viol):
                    viol.append({"violation": mk_violation({"i": 0, "op": "eps" if call[0] == "e" else "delta"}, "value",
                                                           f"{err} (order: {order}, {attempt}, call {len(hist)})"),
                                 "seed": 0, "replay": {"table": "history", "history": list(hist)}})
    W._EPS_DEF.pop(8, None)   # 16 MB; the workers forked later never need it
    sizes_e = list(range(1, nmax + 1))
    sizes_d = [list(x) for x in pairs]
    # large diagrams: chains of k (1,1)-tensors with axes of length 1 (the value is a product of scalars, the cost
    # is nil, only the bookkeeping grows) and edge-less diagrams of k rank-1 nodes
    large = {"chains_ok": [], "products_ok": []}
    for k in (8, 16, 26, 27, 40):
        ts = [Tensor(np.array([[float(i % 5 + 2)]]), covariant=[0]) for i in range(k)]
        want = float(np.prod([float(i % 5 + 2) for i in range(k)]))
        try:
            r = TensorDiagram(*[(ts[i + 1], ts[i]) for i in range(k - 1)]).calculate()
            ok = r.tensor_shape == (1, 1) and r.array.shape == (1, 1) and np.isclose(r.array[0, 0], want, rtol=1e-12)
            err = None if ok else f"value {r.array.ravel()[:1]} type {r.tensor_shape}, expected {want} type (1,1)"
        except Exception as e:  # noqa: BLE001
            err = f"{type(e).__name__}: {e}"
        if err is None:
            large["chains_ok"].append(k)
        else:
            v = mk_violation({"i": 0, "op": "calc"}, "einsum-limit", f"chain of {k} (1,1)-tensors (total rank {2 * k}): {err}")
            v["signature"] = "M5|calc|einsum-limit-total-rank-above-52"
            viol.append({"violation": v, "seed": 0, "replay": {"table": "chain", "k": k}})
            break
    for k in (8, 32, 33):
        try:
            d = TensorDiagram()
            for i in range(k):
                d.add_node(Tensor([2.0]))
            r = d.calculate()
            ok = r.array.shape == (1,) * k and r.array.ravel()[0] == 2.0 ** k and r.tensor_shape == (k, 0)
            err = None if ok else f"shape {r.array.shape[:4]}.. type {r.tensor_shape}"
        except Exception as e:  # noqa: BLE001
            err = f"{type(e).__name__}: {e}"
        if err is None:
            large["products_ok"].append(k)
        else:
            v = mk_violation({"i": 0, "op": "calc"}, "einsum-limit", f"edge-less diagram of {k} rank-1 nodes: {err}")
            v["signature"] = "M5|calc|einsum-limit-more-than-32-nodes"
            viol.append({"violation": v, "seed": 0, "replay": {"table": "product", "k": k}})
            break
    W.evict_caches(3)
    info = {"large_diagram_probes": large, "tables": {"exhaustive": True, "epsilon_sizes": sizes_e, "delta_sizes": sizes_d,
                       "entries_compared": entries, "orders": list(orders) + ["every call repeated (cache hit)"],
                       "out_of_range": f"epsilon(n > {nmax}) (n=9 needs 387 MB) and delta(n, p) with n > 9 or more than "
                                       f"{cap} entries",
                       "wall_s": round(time.time() - t0, 1)}}
    return info, viol[:4]
