"""C06: histories of transformation applications; group laws on library-computed sides (oracle M6).

The oracle never says which action is geometrically right (that is C07); it checks, on the evolving values,
  L1  (s*t)*x ~ s*(t*x)          L2  identity*x ~ x          L3  t.inverse()*(t*x) ~ x
  L4  t**k ~ k-fold product, t**0 ~ identity, t**-k ~ (t.inverse())**k
  L5  t*x is of the same kind as x (kind class, collection shape, representation invariant of cached _line/_plane)
where ~ is a scale-free (projective) comparison done here, not the library's ==.
A float shadow of every transformation (computed here with numpy, independently of the library) only bounds the
conditioning of what is generated, so that the tolerance stays sound.
"""
from __future__ import annotations

import hashlib
import math
import random
import time
import traceback

import numpy as np

from geometer import transformation as TR
from geometer.base import Tensor

from . import program, seam, snapshot, world as W

TOL = 1e-12          # on 1 - cos^2 of the projective angle  (angle <= 1e-6)
COND_MAX = 1e4
ENTRY_MAX = 1e6
CHAIN_MAX = 8
REP_TOL = 1e-6       # relative residual of "cached line/plane contains the vertices": the plane is joined from the
                     # first vertices only, so the others carry the float error of the chain (cond <= 1e4, observed
                     # up to 1.3e-9 in 2.3e5 runs); a stale or unmoved subspace gives residuals of order 1


# ---------------------------------------------------------------------------------------------------------------------
# scale-free comparison


def proj_defect(a: np.ndarray, b: np.ndarray, nax: int) -> tuple[float, int]:
    """max over elements of 1 - |<a,b>|^2 / (|a|^2 |b|^2), flattening the last `nax` axes; elements where either side
    vanishes are skipped (returned count)."""
    if a.shape != b.shape:
        return math.inf, 0
    sh = a.shape[: a.ndim - nax]
    if a.size == 0:
        return 0.0, 0   # two empty collections of the same shape
    A = a.reshape(sh + (-1,)).astype(np.complex128)
    B = b.reshape(sh + (-1,)).astype(np.complex128)
    if not np.all(np.isfinite(A)) or not np.all(np.isfinite(B)):
        return math.inf, 0
    # scale every element to max-abs 1 first: the comparison is projective, and squares of large (1e150) or tiny
    # representatives would otherwise over-/underflow and produce nan
    with np.errstate(all="ignore"):
        ma = np.max(np.abs(A), axis=-1, keepdims=True)
        mb = np.max(np.abs(B), axis=-1, keepdims=True)
        A = A / np.where(ma > 0, ma, 1.0)
        B = B / np.where(mb > 0, mb, 1.0)
    na = np.sum(np.abs(A) ** 2, axis=-1)
    nb = np.sum(np.abs(B) ** 2, axis=-1)
    ip = np.abs(np.sum(np.conj(A) * B, axis=-1)) ** 2
    ok = (na > 0) & (nb > 0) & np.isfinite(na) & np.isfinite(nb)
    if not np.all(np.isfinite(A)) or not np.all(np.isfinite(B)):
        return math.inf, 0
    with np.errstate(all="ignore"):
        d = 1.0 - ip / np.where(ok, na * nb, 1.0)
    d = np.where(ok, d, 0.0)
    zero_mismatch = (na > 0) != (nb > 0)
    if np.any(zero_mismatch):
        return math.inf, int(np.sum(~ok))
    return float(np.max(d)) if d.size else 0.0, int(np.sum(~ok))


MAX_AFF_SEEN = 0.0
EPS = 2.220446049250313e-16


def affine_defect(a: np.ndarray, b: np.ndarray, cond: float) -> float:
    """Point-like objects only: difference of the affine coordinates x_i/x_n relative to the size of the point,
    divided by its own tolerance 100*eps*cond^2*(|x|max/|x_n|) (the float error of a chain with condition number
    `cond` -- squared, because the batch path of utils.inv (adjugate/det) is only accurate to about eps*cond^2; with
    eps*cond the clean tree produced a ratio of 16 on a 65-matrix collection -- amplified by the division by a
    relatively small last coordinate); > 1 means violation.
    The homogeneous angle is blind to an error in the LAST coordinate of a far-away point ((1e6, 0, 1) vs
    (1e6, 0, 1.01) subtend 1e-8); the affine chart is not."""
    if a.shape != b.shape or a.size == 0:
        return 0.0
    A, B = a.astype(np.complex128), b.astype(np.complex128)
    with np.errstate(all="ignore"):
        ma = np.max(np.abs(A), axis=-1)
        mb = np.max(np.abs(B), axis=-1)
        ok = (np.abs(A[..., -1]) > 1e-7 * ma) & (np.abs(B[..., -1]) > 1e-7 * mb) & (ma > 0) & (mb > 0)
        if not np.any(ok):
            return 0.0
        amp = np.maximum(ma / np.where(ok, np.abs(A[..., -1]), 1), mb / np.where(ok, np.abs(B[..., -1]), 1))
        xa = A[..., :-1] / np.where(ok, A[..., -1], 1)[..., None]
        xb = B[..., :-1] / np.where(ok, B[..., -1], 1)[..., None]
        size = np.maximum(1.0, np.maximum(np.max(np.abs(xa), axis=-1), np.max(np.abs(xb), axis=-1)))
        d = np.max(np.abs(xa - xb), axis=-1) / size
        tol = np.maximum(1e-9, 100.0 * EPS * cond * cond * amp)
        r = np.where(ok, d / tol, 0.0)
    return float(np.max(r)) if np.all(np.isfinite(r)) else math.inf


def kind_of(o) -> tuple:
    m = W.meta(o)
    if m is None:
        return ("?",)
    return (m["base"], m.get("dim"), bool(m.get("dual", False)), m["tshape"], getattr(o, "pdim", None))


def tensor_axes(o) -> int:
    """number of trailing axes forming one projective element"""
    m = W.meta(o)
    if m["base"] in ("segment", "polygon", "polyhedron", "polytope", "point"):
        return 1
    return sum(o.tensor_shape)


def approx(a, b, cond: float = COND_MAX, aff: bool = False) -> tuple[bool, str, float]:
    """Projective equality of two library objects of the same kind."""
    if isinstance(a, BaseException) or isinstance(b, BaseException):
        same = type(a) is type(b)
        return same, f"{type(a).__name__} vs {type(b).__name__}", 0.0
    if kind_of(a) != kind_of(b):
        return False, f"kind {kind_of(a)} vs {kind_of(b)}", math.inf
    if a.shape != b.shape:
        return False, f"shape {a.shape} vs {b.shape}", math.inf
    nax = tensor_axes(a)
    d, _ = proj_defect(a.array, b.array, nax)
    worst = d
    what = "array"
    if not d <= TOL and W.meta(a)["base"] in ("segment", "polygon"):
        # library contract: vertex cycle up to rotation / reversal
        n = a.shape[-2]
        for rev in (False, True):
            bb = np.flip(b.array, axis=-2) if rev else b.array
            for r in range(n):
                d2, _ = proj_defect(a.array, np.roll(bb, r, axis=-2), 1)
                if d2 <= TOL:
                    d = worst = d2
    for attr in ("_line", "_plane"):
        x, y = getattr(a, attr, None), getattr(b, attr, None)
        if isinstance(x, Tensor) and isinstance(y, Tensor):
            if x.shape != y.shape:
                return False, f"{attr} shape {x.shape} vs {y.shape}", math.inf
            d3, _ = proj_defect(x.array, y.array, sum(x.tensor_shape))
            if d3 > worst:
                worst, what = d3, attr
    if aff and worst <= TOL and W.meta(a)["base"] in ("point", "segment", "polygon", "polyhedron", "polytope"):
        da = affine_defect(a.array, b.array, cond)
        global MAX_AFF_SEEN
        MAX_AFF_SEEN = max(MAX_AFF_SEEN, da if math.isfinite(da) else 0.0)
        if da > 1.0:
            return False, f"affine coordinates (difference is {da:.3g} times its tolerance 100*eps*cond^2*|x|/|x_n|, cond={cond:.3g})", da
    return worst <= TOL, what, worst


def rep_invariant(o) -> tuple[bool, str]:
    """cached supporting line / plane contains the vertices (own relative test, not the library's contains)"""
    line = getattr(o, "_line", None)
    plane = getattr(o, "_plane", None)
    v = np.asarray(o.array)
    if isinstance(plane, Tensor):
        pl = np.asarray(plane.array)            # (..., n)
        if pl.shape[:-1] != v.shape[:-2]:
            return False, f"_plane shape {pl.shape} does not match vertices {v.shape}"
        r = np.abs(np.einsum("...j,...vj->...v", pl, v))
        s = np.linalg.norm(pl, axis=-1)[..., None] * np.linalg.norm(v, axis=-1)
        if np.any(r > REP_TOL * np.where(s > 0, s, 1)):
            return False, f"_plane does not contain the vertices (relative residual {float(np.max(r / np.where(s > 0, s, 1))):.2e})"
    if isinstance(line, Tensor):
        l = np.asarray(line.array)
        dim = v.shape[-1] - 1
        if dim == 2:
            if l.shape[:-1] != v.shape[:-2]:
                return False, f"_line shape {l.shape} does not match vertices {v.shape}"
            r = np.abs(np.einsum("...j,...vj->...v", l, v))
            s = np.linalg.norm(l, axis=-1)[..., None] * np.linalg.norm(v, axis=-1)
        else:
            if l.shape[:-2] != v.shape[:-2]:
                return False, f"_line shape {l.shape} does not match vertices {v.shape}"
            if line.tensor_shape[0] == 2:
                # covariant line K_{ij} = p_i q_j - p_j q_i: go to the contravariant form L^{kl} = eps^{ijkl} K_{ij}
                from .world import eps_ref

                l = np.einsum("ijkl,...ij->...kl", eps_ref(4).astype(float), l)
            # contravariant line L^{ij} (two planes): a point x lies on it iff L^{ij} x_j = 0
            r = np.linalg.norm(np.einsum("...kl,...vl->...vk", l, v), axis=-1)
            s = np.linalg.norm(l, axis=(-2, -1))[..., None] * np.linalg.norm(v, axis=-1)
        if np.any(r > REP_TOL * np.where(s > 0, s, 1)):
            return False, f"_line does not contain the vertices (relative residual {float(np.max(r / np.where(s > 0, s, 1))):.2e})"
    return True, ""


# ---------------------------------------------------------------------------------------------------------------------
# program generation with a shadow (pure data + numpy; the library is not executed)


BATCH = 64           # utils.inv / adjugate / det switch to closed formulas at this many matrices
COND_MAX_BATCH = 100.0


ENTRY_MIN = 1e-6   # every matrix of a (collection of) transformation(s) has an entry at least this large


def cond_ok(m: np.ndarray) -> bool:
    if not np.all(np.isfinite(m)) or np.max(np.abs(m)) > ENTRY_MAX or np.min(np.max(np.abs(m), axis=(-1, -2))) < ENTRY_MIN:
        return False
    try:
        c = np.linalg.cond(m)
    except np.linalg.LinAlgError:
        return False
    # the adjugate/det inverse used for >= 64 matrices is far less accurate than LU (about eps*cond^2.5 observed:
    # a 70-matrix collection with cond 5e3 left a projective defect of 1.5e-12 on the clean tree), so large
    # collections only contain well-conditioned matrices
    big = m.ndim >= 3 and int(np.prod(m.shape[:-2])) >= BATCH
    return bool(np.all(c <= (COND_MAX_BATCH if big else COND_MAX)))


def make_cfg(rng) -> dict:
    import os

    deep = os.environ.get("GEOSIM_TIER") == "thorough"
    return {"profile": "c06", "main_dim": rng.choice([1, 2, 2, 3, 3]),
            "n_steps": rng.choice([6, 10, 16, 24, 30, 45, 60] if deep else [6, 10, 16, 24, 30]),
            "n_clients": 1, "big_coll": rng.random() < 0.3, "p_float": rng.choice([0.0, 0.5]), "p_complex": rng.choice([0.0, 0.0, 0.2]), "narrow": rng.random() < 0.3,
            "p_scaled": rng.choice([0.0, 0.4]), "p_degenerate": 0.0, "cold_start": rng.random() < 0.5, "warm": [],
            "p_law": rng.choice([0.35, 0.5]), "p_layout": rng.choice([0.0, 0.3, 0.6])}


class Gen:
    def __init__(self, rng, cfg):
        self.rng, self.cfg = rng, cfg
        self.kshape2 = None
        self.recipes: list[dict] = []
        self.steps: list[dict] = []
        self.T: dict[int, dict] = {}    # transformation slots: {"m": shadow, "fshape": tuple}
        self.X: dict[int, dict] = {}    # object slots: {"kind", "fshape", "acc": composite shadow, "depth"}
        self.next = 0

    def slot(self) -> int:
        self.next += 1
        return self.next - 1

    def add_recipe(self, k, a=None, kw=None) -> int:
        s = self.slot()
        r = {"slot": s, "k": k}
        if a is not None:
            r["a"] = a
        if kw:
            r["kw"] = kw
        if k in program.LAYOUT_KINDS and self.rng.random() < self.cfg.get("p_layout", 0.0):
            r["layout"] = self.rng.choice(["F", "M"])   # same matrix, column-major or transposed-view storage
        self.recipes.append(r)
        return s

    def inv_matrix(self, n, cmax=COND_MAX):
        rng = self.rng
        for _ in range(400):
            m = [[rng.randint(-3, 3) for _ in range(n)] for _ in range(n)]
            d = program._det(m)
            if 1 <= abs(d) <= 6 and cond_ok(np.array(m, float)) and np.linalg.cond(np.array(m, float)) <= cmax:
                return m
        return [[1 if i == j else 0 for j in range(n)] for i in range(n)]

    def pool(self):
        rng, cfg = self.rng, self.cfg
        d = cfg["main_dim"]
        n = d + 1
        I = np.eye(n)
        self.kcoll_c = None
        # transformations
        for _ in range(rng.randint(2, 4)):
            c = rng.random()
            if c < 0.12:
                # structured matrices: permutations, signed diagonals, zero diagonal, unimodular shears
                kind = rng.choice(["perm", "diag", "zerodiag", "shear", "weakpersp", "weakpersp"])
                if kind == "perm":
                    pm = list(range(n))
                    rng.shuffle(pm)
                    m = [[1 if pm[i] == j else 0 for j in range(n)] for i in range(n)]
                elif kind == "diag":
                    m = [[rng.choice([1, -1, 2, -2]) if i == j else 0 for j in range(n)] for i in range(n)]
                elif kind == "weakpersp":
                    # almost affine: perspective entries far below the library's 1e-8 tolerance, but not zero
                    m = [[(1 if i == j else rng.randint(-1, 1)) if i < n - 1 else 0 for j in range(n)] for i in range(n)]
                    m[-1] = [rng.choice([1e-9, -3e-9, 5e-9, 0]) for _ in range(n - 1)] + [1]
                    if abs(np.linalg.det(np.array(m, float))) < 0.5:
                        m = [[1 if i == j else 0 for j in range(n)] for i in range(n - 1)] + [m[-1]]
                elif kind == "zerodiag" and n >= 2:
                    m = [[0 if i == j else 1 for j in range(n)] for i in range(n)]
                    if abs(program._det(m)) < 1:
                        m = self.inv_matrix(n)
                else:
                    m = [[1 if i == j else (rng.randint(-2, 2) if j > i else 0) for j in range(n)] for i in range(n)]
                if not cond_ok(np.array(m, float)):
                    m = self.inv_matrix(n)
                s = self.add_recipe("transf", [m], {"dt": "f" if kind == "weakpersp" else rng.choice(["f", "i"])})
                self.T[s] = {"m": np.array(m, float), "fshape": ()}
            elif c < 0.55 or d == 1:
                m = self.inv_matrix(n)
                k_ = rng.choice([1, 1, 1, -1, 2, 0.5, 1, 1e-3, 250.0])   # the same transformation, another representative of MODERATE
                # scale: with a factor 1000 the inverse has entries ~1e-4, images of 3D polygons get coordinates whose
                # triple products fall below the library's absolute tolerance 1e-8 and join() raises -- representative
                # independence is C03's subject, not a group law
                if k_ != 1:
                    m = [[x * k_ for x in row] for row in m]
                s = self.add_recipe("transf", [m], {"dt": "f" if k_ in (0.5, 1e-3, 250.0) else rng.choice(["f", "i"])})
                self.T[s] = {"m": np.array(m, float), "fshape": ()}
            elif c < 0.7:
                v = [rng.randint(-3, 3) for _ in range(d)]
                s = self.add_recipe("translation", [v])
                m = np.eye(n)
                m[:-1, -1] = v
                self.T[s] = {"m": m, "fshape": ()}
            elif c < 0.85:
                ang = rng.choice([0.5, -1.25, math.pi / 2, 2.0])
                if d == 2:
                    s = self.add_recipe("rotation", [ang])
                    m = np.eye(3)
                    m[:2, :2] = [[math.cos(ang), -math.sin(ang)], [math.sin(ang), math.cos(ang)]]
                else:
                    ax = [rng.randint(-2, 2) for _ in range(3)]
                    if not any(ax):
                        ax = [0, 0, 1]
                    ps = self.add_recipe("point", [ax + [1]], {"how": "hom", "dt": "i"})
                    s = self.add_recipe("rotation", [ang, ps])
                    a = np.array(ax, float) / np.linalg.norm(ax)
                    K = np.array([[0, -a[2], a[1]], [a[2], 0, -a[0]], [-a[1], a[0], 0]])
                    R = math.cos(ang) * np.eye(3) + math.sin(ang) * K + (1 - math.cos(ang)) * np.outer(a, a)
                    m = np.eye(4)
                    m[:3, :3] = R
                self.T[s] = {"m": m, "fshape": ()}
            else:
                f = [rng.choice([1, 2, -1, 0.5, 3]) for _ in range(d)]
                s = self.add_recipe("scaling", [f])
                self.T[s] = {"m": np.diag(f + [1.0]), "fshape": ()}
        # structured families that random matrices never hit: complex unitary (phases, i*sin blocks, DFT), real
        # orthogonal (Householder), symmetric positive definite, nilpotent + identity
        if rng.random() < 0.35:
            fam = rng.choice(["phases", "isin", "dft", "householder", "spd", "unipotent", "chouseholder"])
            mc = None
            if fam == "phases":
                ph = [rng.choice([1, 1j, -1, -1j]) for _ in range(n)]
                pm = list(range(n))
                rng.shuffle(pm)
                mc = np.zeros((n, n), complex)
                for i_ in range(n):
                    mc[i_, pm[i_]] = ph[i_]
            elif fam == "isin" and n >= 2:
                a_ = rng.choice([0.5, 1.0, 2.0])
                mc = np.eye(n, dtype=complex)
                mc[0, 0] = mc[1, 1] = math.cos(a_)
                mc[0, 1] = mc[1, 0] = 1j * math.sin(a_)
                mc[-1, -1] = rng.choice([1, 1j])
            elif fam == "dft":
                w = np.exp(-2j * np.pi / n)
                mc = np.array([[w ** (i_ * j_) for j_ in range(n)] for i_ in range(n)]) / math.sqrt(n)
            elif fam in ("householder", "chouseholder"):
                v_ = np.array([rng.randint(-2, 2) for _ in range(n)], float)
                if fam == "chouseholder":
                    v_ = v_ + 1j * np.array([rng.randint(-2, 2) for _ in range(n)], float)
                if np.linalg.norm(v_) > 0:
                    mc = np.eye(n, dtype=complex) - 2 * np.outer(v_, v_.conj()) / np.vdot(v_, v_)
            elif fam == "spd":
                b_ = np.array(self.inv_matrix(n), float)
                mc = (b_ @ b_.T).astype(complex)
            elif fam == "unipotent":
                mc = np.eye(n, dtype=complex)
                for i_ in range(n - 1):
                    mc[i_, i_ + 1] = rng.randint(1, 2)
            if mc is not None and cond_ok(mc):
                if np.all(mc.imag == 0):
                    s = self.add_recipe("transf", [mc.real.tolist()], {"dt": "f"})
                    self.T[s] = {"m": mc.real.copy(), "fshape": ()}
                else:
                    s = self.add_recipe("ctransf", [mc.real.tolist(), mc.imag.tolist()])
                    self.T[s] = {"m": mc, "fshape": ()}
        # complex transformations (CP^n): a single one and, sometimes, a large collection
        if rng.random() < 0.25:
            for _ in range(50):
                re_, im_ = self.inv_matrix(n), [[rng.randint(-1, 1) for _ in range(n)] for _ in range(n)]
                mc = np.array(re_, float) + 1j * np.array(im_, float)
                if cond_ok(mc) and np.linalg.cond(mc) <= 50:
                    s = self.add_recipe("ctransf", [re_, im_])
                    self.T[s] = {"m": mc, "fshape": ()}
                    break
        if rng.random() < 0.15 and cfg["big_coll"]:
            k = rng.choice([64, 65])
            base = []
            for _ in range(200):
                re_, im_ = self.inv_matrix(n, 30.0), [[rng.randint(-1, 1) for _ in range(n)] for _ in range(n)]
                mc = np.array(re_, float) + 1j * np.array(im_, float)
                if np.all(np.isfinite(mc)) and np.linalg.cond(mc) <= 30:
                    base.append((re_, im_))
                if len(base) >= 4:
                    break
            if base:
                res = [base[i % len(base)][0] for i in range(k)]
                ims = [base[i % len(base)][1] for i in range(k)]
                s = self.add_recipe("ctransfcoll", [res, ims])
                self.T[s] = {"m": np.array(res, float) + 1j * np.array(ims, float), "fshape": (k,)}
                self.kcoll_c = k
        # a collection of transformations on both sides of the batch threshold of utils.inv
        if d >= 1 and rng.random() < 0.7:
            k = rng.choice([64, 65, 64, 70]) if cfg["big_coll"] else rng.choice([1, 2, 3, 5])
            ms = [self.inv_matrix(n, 30.0 if k >= BATCH else COND_MAX) for _ in range(min(k, 6))]
            if rng.random() < 0.4 and d >= 2:
                # a collection of exactly AFFINE maps, given by representatives whose corner entry is not 1
                ms = []
                for _ in range(6):
                    for _try in range(50):
                        a_ = self.inv_matrix(n - 1, 30.0)
                        c_ = rng.choice([1, 2, -1, 0.5, -2])
                        m_ = [[a_[i][j] * c_ for j in range(n - 1)] + [rng.randint(-3, 3) * c_] for i in range(n - 1)]
                        m_.append([0] * (n - 1) + [c_])
                        if np.linalg.cond(np.array(m_, float)) <= 30:
                            break
                    ms.append(m_)
            ms = [ms[i % len(ms)] for i in range(k)]
            if rng.random() < 0.3:
                # some elements given by representatives of another scale (pixel -> metre conversions folded into the
                # matrix): determinants of 1e-12 .. 1e8 next to ordinary ones. Polytopes are protected from the
                # small ones by the volume bound in cok(); everything else acts scale-free.
                for j_ in rng.sample(range(k), min(k, rng.choice([1, 2, 5]))):
                    f_ = rng.choice([1e-3, 1e-2, 100.0])
                    ms[j_] = [[x * f_ for x in row] for row in ms[j_]]
            frac = any(isinstance(x, float) and x != int(x) for m_ in ms for row in m_ for x in row)
            s = self.add_recipe("transfcoll", [ms], {"dt": "f" if frac else rng.choice(["f", "i", "i"])})
            self.T[s] = {"m": np.array(ms, float), "fshape": (k,)}
            self.kcoll = k
        else:
            self.kcoll = None
        if rng.random() < 0.2:
            ms = [[self.inv_matrix(n) for _ in range(2)] for _ in range(2)]
            s = self.add_recipe("transfcoll", [ms], {"dt": rng.choice(["f", "i"])})
            self.T[s] = {"m": np.array(ms, float), "fshape": (2, 2)}
        if cfg["big_coll"] and rng.random() < 0.3:
            # two collection axes with 64 or more matrices in total: the batch code paths see (a, b, n, n) arrays
            sh = rng.choice([(8, 8), (4, 16), (16, 4), (5, 13)])
            base = [self.inv_matrix(n, 30.0) for _ in range(5)]
            ms = [[base[(i_ * sh[1] + j_) % 5] for j_ in range(sh[1])] for i_ in range(sh[0])]
            s = self.add_recipe("transfcoll", [ms], {"dt": rng.choice(["f", "i"])})
            self.T[s] = {"m": np.array(ms, float), "fshape": sh}
            self.kshape2 = sh
        singles = sorted(t for t, v in self.T.items() if v["fshape"] == ())
        if len(singles) >= 2 and rng.random() < 0.4:
            a_, b_ = rng.sample(singles, 2)
            if all(r["k"] == "transf" for r in self.recipes if r["slot"] in (a_, b_)):
                s = self.add_recipe("transfstack", [[a_, b_]])
                self.T[s] = {"m": np.stack([self.T[a_]["m"], self.T[b_]["m"]]), "fshape": (2,)}
        # objects of every transformable kind
        pg = program.PoolGen(rng, dict(cfg, main_dim=max(d, 2), big_coll=False))
        if d == 1:
            for _ in range(3):
                s = self.add_recipe("point", [[rng.randint(-4, 4), rng.choice([1, 1, 2, 0]) or 1]], {"how": "hom", "dt": "i"})
                self.X[s] = {"kind": "point", "fshape": (), "acc": I, "depth": 0}
            k = self.kcoll or 3
            s = self.add_recipe("pointcoll", [[[rng.randint(-4, 4), 1] for _ in range(k)]], {"dt": "i"})
            self.X[s] = {"kind": "point", "fshape": (k,), "acc": I, "depth": 0}
            return

        def pt():
            return [rng.randint(-4, 4) for _ in range(d)] + [1]

        def obj(kind, fshape, k, a=None, kw=None):
            s = self.add_recipe(k, a, kw)
            self.X[s] = {"kind": kind, "fshape": tuple(fshape), "acc": I, "depth": 0}
            return s

        P = [obj("point", (), "point", [pt() if rng.random() < 0.85 else pt()[:-1] + [0]], {"how": "hom", "dt": pg.dt()})
             for _ in range(5)]
        # make the first points pairwise distinct and in general position where constructors need it
        base = [[0] * d + [1]] + [[(3 if i == j else 0) for j in range(d)] + [1] for i in range(d)] + [[2] * d + [1]]
        G = [obj("point", (), "point", [[x + rng.randint(0, 1) if j < d else x for j, x in enumerate(b)]],
                 {"how": "hom", "dt": "i"}) for b in base]
        kc = self.kcoll or rng.choice([1, 2, 3])
        if cfg.get("narrow"):
            # objects stored in single precision / narrow integers (sensor data, pixel grids): every run of such a
            # configuration has at least these, whatever pg.dt() draws for the others
            obj("point", (), "point", [pt()], {"how": "hom", "dt": "f32"})
            obj("point", (kc,), "pointcoll", [[pt() for _ in range(kc)]], {"dt": rng.choice(["f32", "i16", "i32"])})
        pc1 = obj("point", (kc,), "pointcoll", [[pt() for _ in range(kc)]], {"dt": pg.dt()})
        pc2 = obj("point", (kc,), "pointcoll", [[[x + (1 if j == 0 else 0) * 5 for j, x in enumerate(pt())] for _ in range(kc)]],
                  {"dt": "i"})
        if rng.random() < 0.3:
            obj("point", (2, 2), "pointcoll", [[[pt(), pt()], [pt(), pt()]]], {"dt": "i"})
        if getattr(self, "kshape2", None):
            sh2 = self.kshape2
            obj("point", tuple(sh2), "pointcoll", [[[pt() for _ in range(sh2[1])] for _ in range(sh2[0])]], {"dt": pg.dt()})
        obj("line", (), "line_pq", [G[0], G[1]])
        obj("line", (), "line_pq", [G[1], G[2]])
        obj("line", (kc,), "linecoll_pq", [pc1, pc2])
        if d == 2:
            obj("line", (), "line", [[rng.randint(-3, 3) or 1, rng.randint(-3, 3), rng.randint(-3, 3)]], {"dt": "i"})
        if d == 3:
            obj("plane", (), "plane_pqr", [G[0], G[1], G[2]])
            obj("plane", (), "plane", [[rng.randint(-3, 3) or 1, rng.randint(-3, 3), rng.randint(-3, 3), rng.randint(-3, 3)]],
                {"dt": "i"})
            obj("plane", (kc,), "planecoll",
                [[[rng.randint(-3, 3) or 1, rng.randint(-3, 3), rng.randint(-3, 3), rng.randint(-3, 3)] for _ in range(kc)]],
                {"dt": "i"})
        # far-away objects (coordinates ~1e5..1e6): errors in the last homogeneous coordinate become visible
        if rng.random() < 0.5:
            big = rng.choice([1e5, 1e6, 3e5])
            n_before = set(self.X)
            f1 = obj("point", (), "point", [[big * rng.choice([1, -2, 3])] + [big * rng.randint(-2, 2) for _ in range(d - 1)] + [1]],
                     {"how": "hom", "dt": "f"})
            f2 = obj("point", (), "point", [[big * rng.randint(-3, 3) + 1 for _ in range(d)] + [1]], {"how": "hom", "dt": "f"})
            obj("segment", (), "segment", [f1, f2])
            obj("point", (kc,), "pointcoll", [[[big * rng.randint(-3, 3) + k for _ in range(d)] + [1] for k in range(kc)]],
                {"dt": "f"})
            for k_ in set(self.X) - n_before:
                self.X[k_]["far"] = True
        # special configurations: a segment with one end at infinity, the hyperplane at infinity, empty and
        # one-element collections
        inf_pt = obj("point", (), "point", [[1] + [rng.randint(-2, 2) for _ in range(d - 1)] + [0]], {"how": "hom", "dt": "i"})
        obj("segment", (), "segment", [G[0], inf_pt])
        obj("line" if d == 2 else "plane", (), "line" if d == 2 else "plane", [[0] * d + [1]], {"dt": "i"})
        if rng.random() < 0.3:
            obj("point", (0,), "emptycoll", [n])
        if rng.random() < 0.3:
            obj("point", (1,), "pointcoll", [[pt()]], {"dt": "i"})
        # degenerate quadric (pair of hyperplanes)
        g_, h_ = [rng.randint(-2, 2) or 1 for _ in range(n)], [rng.randint(-2, 2) for _ in range(n - 1)] + [1]
        obj("quadric", (), "conic" if d == 2 else "quadric",
            [[[g_[i] * h_[j] + g_[j] * h_[i] for j in range(n)] for i in range(n)]], {"dual": False})
        # quadrics
        m = pg.sym(n)
        for i in range(n):
            m[i][i] = m[i][i] or 1
        obj("quadric", (), "conic" if d == 2 else "quadric", [m], {"dual": rng.random() < 0.3,
                                                                     "dt": rng.choice(["f", "i"])})
        if d == 2:
            obj("quadric", (), "circle", [G[0], rng.choice([1, 2])])
        else:
            obj("quadric", (), "sphere", [G[0], rng.choice([1, 2])])
            if rng.random() < 0.5:
                obj("quadric", (), "cone", [G[0], G[1], 1])
        if rng.random() < 0.35:
            # complex SYMMETRIC quadrics (e.g. conics through complex points such as I, J)
            qr, qi = pg.sym(n), pg.sym(n, -2, 2)
            for i in range(n):
                qr[i][i] = qr[i][i] or 1
            obj("quadric", (), "cquadric", [qr, qi], {"dual": rng.random() < 0.3})
            kq = getattr(self, "kcoll_c", None) or kc
            qrs, qis = [], []
            for _ in range(kq):
                a_, b_ = pg.sym(n), pg.sym(n, -2, 2)
                for i in range(n):
                    a_[i][i] = a_[i][i] or 1
                qrs.append(a_)
                qis.append(b_)
            obj("quadric", (kq,), "cquadric", [qrs, qis], {"dual": False, "coll": True})
            obj("point", (kq,), "pointcoll", [[pt() for _ in range(kq)]], {"dt": "c"})
        ms = []
        for _ in range(kc):
            q = pg.sym(n)
            for i in range(n):
                q[i][i] = q[i][i] or 1
            ms.append(q)
        obj("quadric", (kc,), "quadriccoll", [ms], {"dual": rng.random() < 0.3})
        # polytopes (single transformations only act on these)
        obj("segment", (), "segment", [G[0], G[1]])
        obj("segment", (kc,), "segmentcoll", [pc1, pc2])
        if d == 2:
            nv = rng.choice([3, 4, 5, 6])
            o = [rng.randint(-3, 3), rng.randint(-3, 3)]
            obj("polygon", (), "polygon_arr", [[[o[0] + a, o[1] + b, 1] for a, b in program.CONVEX[nv]]], {"dt": pg.dt()})
            obj("polygon", (), "triangle", [G[0], G[1], G[2]])
            obj("polygon", (), "regpoly", [G[0], 2, rng.choice([3, 4, 5])])
            k2 = rng.choice([1, 2, 3])
            obj("polygon", (k2,), "polygoncoll",
                [[[[i + a, 2 * i + b, 1] for a, b in program.CONVEX[4]] for i in range(k2)]], {"dt": "i"})
        else:
            nv = rng.choice([3, 4, 5])
            obj("polygon", (), "polygon_arr", [pg.planar_polygon(nv)], {"dt": pg.dt()})
            obj("polygon", (), "triangle", [G[0], G[1], G[2]])
            k2 = rng.choice([1, 2, 3])
            obj("polygon", (k2,), "polygoncoll", [[pg.planar_polygon(4) for _ in range(k2)]], {"dt": "i"})
            a = [rng.randint(-2, 2) for _ in range(3)]
            e = [rng.choice([1, 2, 3]) for _ in range(3)]
            cp = [self.add_recipe("point", [a + [1]], {"how": "hom", "dt": "i"})]
            for i in range(3):
                b = list(a)
                b[i] += e[i]
                cp.append(self.add_recipe("point", [b + [1]], {"how": "hom", "dt": "i"}))
            obj("polyhedron", (), "cuboid", cp)
            obj("polyhedron", (), "simplex", [[G[0], G[1], G[2], G[3]]])

    # -- steps
    def pick_T(self, fshape=None):
        c = [s for s, t in self.T.items() if fshape is None or t["fshape"] == fshape]
        return self.rng.choice(sorted(c)) if c else None

    def compatible_X(self, t):
        ft = self.T[t]["fshape"]
        out = []
        for s, x in self.X.items():
            if x["depth"] >= CHAIN_MAX:
                continue
            if ft == ():
                out.append(s)
            elif x["kind"] in ("point", "line", "plane", "quadric") and x["fshape"] == ft:
                out.append(s)
        return sorted(out)

    def aff_ok(self, x, *ts) -> bool:
        """The affine-chart comparison is used where it is needed and where its error model is sound: far-away
        point-like objects under SINGLE transformations (np.linalg.inv is backward stable; the adjugate/det path that
        utils.inv takes for >= 64 matrices loses up to cond^2..cond^3 and brought the clean tree within a factor 2 of
        the tolerance in 1.2e5 runs)."""
        return bool(self.X[x].get("far")) and all(self.T[t]["fshape"] == () for t in ts) and \
            all(self.X[x].get("single_chain", True) for _ in (0,))

    @staticmethod
    def cnum(*ms) -> float:
        """largest condition number among the matrices of a law (at least 10)"""
        return float(max(10.0, *[float(np.max(np.linalg.cond(m))) for m in ms]))

    def cok(self, m, x) -> bool:
        """conditioning bound for a (composite) matrix acting on object x; far-away objects get a tighter one"""
        if not cond_ok(m):
            return False
        if self.X[x]["kind"] in ("segment", "polygon", "polyhedron"):
            # polytopes cache the join of their first vertices (supporting line / plane); join() refuses with
            # LinearDependenceError when that tensor is below the library's ABSOLUTE tolerance 1e-8. A map that shrinks
            # k-dimensional volume by the product of its k smallest singular values brings an honest triangle there
            # (soak: complex t with cond 5.7e3 and entries <= 0.12, singular values of the image vertices
            # 1.4, 2e-4, 3e-5). Dependence of incidence decisions on scale is C03's subject; here such maps are not
            # applied to polytopes.
            k_ = 2 if (self.X[x]["kind"] == "segment" or self.cfg["main_dim"] < 3) else 3
            sv = np.sort(np.linalg.svd(np.asarray(m, complex), compute_uv=False), axis=-1)
            if np.any(np.prod(sv[..., :k_], axis=-1) < 1e-3):
                return False
        if self.X[x].get("far"):
            return bool(np.all(np.linalg.cond(m) <= 100.0))
        # objects with two tensor indices (quadrics; lines and cached segment lines in 3D) are acted on by the
        # inverse twice: the float discrepancy of a round trip grows like eps*cond^3 (a sphere under a chain with
        # cond 6.5e3 left a projective defect of 4.9e-10 on the clean tree), so they get a tighter bound
        # ... and so do polytopes: their cached supporting line / plane is the JOIN of image vertices, a bi-/trilinear
        # expression whose relative error is the vertices' error times the conditioning of the vertex tuple (soak:
        # 3D polygon collection, cond 3.0e3, the two sides' planes differed by a projective defect of 2.6e-11)
        if self.X[x]["kind"] in ("quadric", "segment", "polygon", "polyhedron") or \
                (self.cfg["main_dim"] == 3 and self.X[x]["kind"] == "line"):
            return bool(np.all(np.linalg.cond(m) <= 300.0))
        return True

    def t_ok_x(self, ft, x) -> bool:
        ft = tuple(ft)
        return ft == () or (self.X[x]["kind"] in ("point", "line", "plane", "quadric") and self.X[x]["fshape"] == ft)

    def tt_ok(self, s, t) -> bool:
        fs, ft = self.T[s]["fshape"], self.T[t]["fshape"]
        return fs == () or ft == () or fs == ft

    def shadow_mul(self, a, b):
        return np.matmul(a, b)

    def step(self, i):
        rng = self.rng
        r = rng.random()
        if r < self.cfg["p_law"]:
            law = rng.choice(["assoc", "assoc", "identity", "inverse", "inverse", "pow"])
            if law == "pow":
                # matrices only: the float discrepancy between t**k and the k-fold product is ~ k*n*eps*cond(t)**|k|,
                # so cond(t)**|k| <= 1e8 keeps the projective defect below 1e-14, far under the tolerance
                t = self.pick_T()
                for _ in range(4):
                    k = rng.choice(POW_EXPONENTS)
                    if pow_ok(self.T[t]["m"], k):
                        return {"i": i, "op": "law_pow", "t": t, "k": k}
                return {"i": i, "op": "law_pow", "t": t, "k": rng.choice([0, 1, -1, 2])}
            if law == "identity":
                return {"i": i, "op": "law_identity", "x": rng.choice(sorted(self.X))}
            t = self.pick_T()
            xs = self.compatible_X(t)
            if xs:
                x = rng.choice(xs)
                if law == "inverse":
                    if self.cok(self.shadow_mul(self.T[t]["m"], self.X[x]["acc"]), x) and self.cok(self.T[t]["m"], x):
                        return {"i": i, "op": "law_inverse", "t": t, "x": x, "aff": self.aff_ok(x, t),
                                "cond": self.cnum(self.T[t]["m"], self.shadow_mul(self.T[t]["m"], self.X[x]["acc"]))}
                else:
                    s = self.pick_T(self.T[t]["fshape"]) if rng.random() < 0.7 else self.pick_T(())
                    if s is not None and self.tt_ok(s, t) and self.t_ok_x(self.T[s]["fshape"], x):
                        st = self.shadow_mul(self.T[s]["m"], self.T[t]["m"])
                        if self.t_ok_x(st.shape[:-2], x) and self.cok(st, x) and self.cok(self.T[s]["m"], x) and \
                                self.cok(self.T[t]["m"], x) and self.cok(self.shadow_mul(st, self.X[x]["acc"]), x):
                            return {"i": i, "op": "law_assoc", "s": s, "t": t, "x": x, "aff": self.aff_ok(x, s, t),
                                    "cond": self.cnum(st, self.T[s]["m"], self.T[t]["m"],
                                                      self.shadow_mul(st, self.X[x]["acc"]))}
        r = rng.random()
        if r < 0.5:
            t = self.pick_T()
            xs = self.compatible_X(t)
            if xs:
                x = rng.choice(xs)
                acc = self.shadow_mul(self.T[t]["m"], self.X[x]["acc"])
                if self.cok(acc, x) and self.cok(self.T[t]["m"], x) and \
                        not (self.X[x].get("far") and self.T[t]["fshape"] != ()):
                    y = self.slot()
                    fs = self.X[x]["fshape"]
                    self.X[y] = {"kind": self.X[x]["kind"], "fshape": fs, "acc": acc, "depth": self.X[x]["depth"] + 1,
                                 "far": self.X[x].get("far", False)}
                    return {"i": i, "op": "apply", "t": t, "x": x, "to": y, "via": rng.choice(["mul", "apply"])}
        if r < 0.7:
            t = self.pick_T()
            s = self.pick_T(self.T[t]["fshape"]) if rng.random() < 0.6 else self.pick_T()
            m = self.shadow_mul(self.T[s]["m"], self.T[t]["m"]) if self.tt_ok(s, t) else None
            if m is not None and cond_ok(m):
                u = self.slot()
                self.T[u] = {"m": m, "fshape": m.shape[:-2]}
                return {"i": i, "op": "compose", "s": s, "t": t, "to": u}
        if r < 0.82:
            t = self.pick_T()
            m = np.linalg.inv(self.T[t]["m"])
            if cond_ok(m):
                u = self.slot()
                self.T[u] = {"m": m, "fshape": self.T[t]["fshape"]}
                return {"i": i, "op": "inverse", "t": t, "to": u}
        if r < 0.94:
            t = self.pick_T()
            k = rng.choice(POW_EXPONENTS if rng.random() < 0.4 else [-3, -2, -1, 0, 1, 2, 3, 4])
            m = _mpow(self.T[t]["m"], k) if pow_ok(self.T[t]["m"], k) else None
            if m is not None and cond_ok(m):
                u = self.slot()
                self.T[u] = {"m": m, "fshape": self.T[t]["fshape"]}
                return {"i": i, "op": "pow", "t": t, "k": k, "to": u}
        colls = sorted(t for t, v in self.T.items() if len(v["fshape"]) == 1 and v["fshape"][0] >= 1)
        if colls and rng.random() < 0.5:
            t = rng.choice(colls)
            k = self.T[t]["fshape"][0]
            u = self.slot()
            if rng.random() < 0.6:
                idx = rng.randrange(-k, k)
                self.T[u] = {"m": self.T[t]["m"][idx], "fshape": ()}
                return {"i": i, "op": "t_getitem", "t": t, "idx": idx, "to": u}
            a_ = rng.randrange(0, k)
            b_ = rng.randrange(a_, k) + 1
            self.T[u] = {"m": self.T[t]["m"][a_:b_], "fshape": (b_ - a_,)}
            return {"i": i, "op": "t_getitem", "t": t, "idx": {"s": [a_, b_, None]}, "to": u}
        d = self.cfg["main_dim"]
        shape = rng.choice([None, None, [2], [self.kcoll] if self.kcoll else None])
        u = self.slot()
        m = np.eye(d + 1)
        if shape:
            m = np.tile(m, (shape[0], 1, 1))
        self.T[u] = {"m": m, "fshape": tuple(shape) if shape else ()}
        return {"i": i, "op": "identity", "dim": d, "shape": shape, "to": u}

    def generate(self) -> dict:
        self.pool()
        for i in range(self.cfg["n_steps"]):
            self.steps.append(self.step(i))
        return {"version": 1, "property": "C06", "cfg": self.cfg, "recipes": self.recipes, "steps": self.steps}


POW_EXPONENTS = [-13, -12, -10, -9, -8, -7, -6, -5, -4, -3, -2, -1, 0, 1, 2, 3, 4, 5, 6, 7, 8, 9, 10, 11, 12, 13, 14, 16,
                 17, 20, 24]


def pow_ok(m, k) -> bool:
    try:
        c = float(np.max(np.linalg.cond(m)))
    except np.linalg.LinAlgError:
        return False
    # (before /repo 31a3c89 Tensor.__pow__ was one un-optimised einsum over |k| operands with cost n**(|k|+1) and a
    # 52-label limit; the generator then also bounded that cost. Now only conditioning and magnitude are bounded.)
    mk = _mpow(m, k)
    if mk is None or not np.all(np.isfinite(mk)):
        return False
    mx = float(np.max(np.abs(mk)))
    return math.isfinite(c) and abs(k) * math.log10(max(c, 1.0)) <= 8.0 and abs(k) <= 30 and 1e-30 <= mx <= 1e30


def _mpow(m, k):
    try:
        if k >= 0:
            return np.linalg.matrix_power(m, k)
        return np.linalg.matrix_power(np.linalg.inv(m), -k)
    except np.linalg.LinAlgError:
        return None


# ---------------------------------------------------------------------------------------------------------------------
# execution


def mk_violation(st, law, kind, detail) -> dict:
    v = {"prop": "C06", "oracle": "M6", "step": st["i"], "op": st["op"], "kind": kind, "detail": detail, "law": law}
    v["signature"] = f"M6|{law}|{kind}"
    return v


def _call(ctx, stats, fn):
    ctx.begin()
    try:
        r = fn()
    except seam.StepBudgetExceeded:
        ctx.end()
        return "budget"
    except BaseException as e:  # noqa: BLE001
        r = e
    stats["lines"] += ctx.end()
    return r


def base_of(o) -> str:
    m = W.meta(o)
    b = m["base"] if m else "?"
    if m and m["coll"] and b not in ("segment", "polygon", "polyhedron"):
        b += "coll"
    elif m and m.get("pcoll"):
        b += "coll"
    if m and m.get("dim"):
        b += str(m["dim"])
    return b


def run_case(case: dict, stats: dict) -> tuple[dict | None, list[dict]]:
    W.canonical_start(case["cfg"].get("warm", []))
    world = W.World()
    world.build(case["recipes"])
    S = world.slots
    ctx = seam.Ctx()
    seam.set_ctx(ctx)
    hist = []
    removed = set(case.get("removed", []))
    for st in case["steps"]:
        if st["i"] in removed:
            continue
        op = st["op"]
        h = {"i": st["i"], "op": op, "status": "ok"}
        hist.append(h)
        need = [st[k] for k in ("s", "t", "x") if k in st]
        stats["ops"][op] = stats["ops"].get(op, 0) + 1
        if any(s not in S for s in need):
            h["status"] = "skipped"
            continue
        stats["steps"] += 1
        v = None
        if op == "apply":
            t, x = S[st["t"]], S[st["x"]]
            y = _call(ctx, stats, (lambda: t * x) if st["via"] == "mul" else (lambda: t.apply(x)))
            if isinstance(y, str):
                h["status"] = "budget"
                continue
            stats["applications"][base_of(x)] = stats["applications"].get(base_of(x), 0) + 1
            if isinstance(y, BaseException):
                v = mk_violation(st, "L5-same-kind", base_of(x), f"applying an invertible transformation to "
                                 f"{type(x).__name__}{list(x.shape)} raised {type(y).__name__}: {y}")
            else:
                ok = isinstance(y, Tensor) and kind_of(y) == kind_of(x) and y.shape == x.shape
                if not ok:
                    v = mk_violation(st, "L5-same-kind", base_of(x), f"t*x is {type(y).__name__} "
                                     f"{kind_of(y) if isinstance(y, Tensor) else ''} shape "
                                     f"{getattr(y, 'shape', None)}, x is {type(x).__name__} {kind_of(x)} shape {x.shape}")
                else:
                    good, why = rep_invariant(y)
                    for attr in ("_line", "_plane"):
                        cx, cy = getattr(x, attr, None), getattr(y, attr, None)
                        if isinstance(cx, Tensor) and good and not (
                                isinstance(cy, Tensor) and kind_of(cy) == kind_of(cx) and cy.shape == cx.shape):
                            good, why = False, (f"cached {attr} of the image is "
                                                f"{type(cy).__name__}{kind_of(cy) if isinstance(cy, Tensor) else ''} "
                                                f"shape {getattr(cy, 'shape', None)}, of x it is "
                                                f"{type(cx).__name__}{kind_of(cx)} shape {cx.shape}")
                    stats["rep_invariants"] += 1
                    if not good:
                        v = mk_violation(st, "L5-representation", base_of(x), f"after t*x on {type(x).__name__}: {why}")
                    world.put(st["to"], y, f"step{st['i']}")
        elif op == "compose":
            u = _call(ctx, stats, lambda: S[st["s"]] * S[st["t"]])
            if isinstance(u, Tensor) and W.meta(u)["base"] == "transf":
                world.put(st["to"], u)
            elif not isinstance(u, str):
                v = mk_violation(st, "L5-same-kind", "transf", f"s*t gave {type(u).__name__}: {u if isinstance(u, BaseException) else ''}")
        elif op == "inverse":
            u = _call(ctx, stats, lambda: S[st["t"]].inverse())
            if isinstance(u, Tensor) and W.meta(u)["base"] == "transf" and u.shape == S[st["t"]].shape:
                world.put(st["to"], u)
            elif not isinstance(u, str):
                v = mk_violation(st, "L5-same-kind", "transf", f"inverse() gave {type(u).__name__}: {u if isinstance(u, BaseException) else getattr(u, 'shape', '')}")
        elif op == "pow":
            u = _call(ctx, stats, lambda: S[st["t"]] ** st["k"])
            if isinstance(u, Tensor) and W.meta(u)["base"] == "transf" and u.shape == S[st["t"]].shape:
                world.put(st["to"], u)
            elif not isinstance(u, str):
                v = mk_violation(st, "L5-same-kind", "transf", f"t**{st['k']} gave {type(u).__name__}: "
                                 f"{u if isinstance(u, BaseException) else getattr(u, 'shape', '')} for t of shape {S[st['t']].shape}")
        elif op == "t_getitem":
            u = _call(ctx, stats, lambda: S[st["t"]][W.decode_index(st["idx"])])
            if isinstance(u, Tensor) and W.meta(u)["base"] == "transf":
                world.put(st["to"], u)
            elif not isinstance(u, str):
                v = mk_violation(st, "L5-same-kind", "transf", f"indexing a TransformationCollection with "
                                 f"{st['idx']} gave {type(u).__name__}: {u if isinstance(u, BaseException) else ''}")
        elif op == "identity":
            u = _call(ctx, stats, lambda: TR.identity(st["dim"], tuple(st["shape"]) if st["shape"] else None))
            if isinstance(u, Tensor):
                world.put(st["to"], u)
        else:
            v = law(st, S, ctx, stats)
        if v is not None:
            return v, hist
    return None, hist


def law(st, S, ctx, stats) -> dict | None:
    op = st["op"]
    stats["laws"][op] = stats["laws"].get(op, 0) + 1

    def C(fn):
        return _call(ctx, stats, fn)

    if op == "law_assoc":
        s, t, x = S[st["s"]], S[st["t"]], S[st["x"]]
        lhs = C(lambda: (s * t) * x)
        rhs = C(lambda: s * (t * x))
        name, kind = "L1-assoc", base_of(x)
        what = f"(s*t)*x vs s*(t*x) on {type(x).__name__}{list(x.shape)}"
    elif op == "law_identity":
        x = S[st["x"]]
        dim = x.shape[-1] - 1
        lhs = C(lambda: TR.identity(dim) * x)
        rhs = x
        name, kind = "L2-identity", base_of(x)
        what = f"identity*x vs x on {type(x).__name__}{list(x.shape)}"
    elif op == "law_inverse":
        t, x = S[st["t"]], S[st["x"]]
        lhs = C(lambda: t.inverse() * (t * x))
        rhs = x
        name, kind = "L3-inverse", base_of(x)
        what = f"t.inverse()*(t*x) vs x on {type(x).__name__}{list(x.shape)}"
    else:
        t, k = S[st["t"]], st["k"]
        lhs = C(lambda: t ** k)

        def prod():
            base = t if k > 0 else t.inverse()
            if k == 0:
                return TR.identity(t.shape[-1] - 1, t.shape[:-2] if t.free_indices else None)
            r = base
            for _ in range(abs(k) - 1):
                r = base * r
            return r

        rhs = C(prod)
        name, kind = "L4-pow", f"k{'>0' if k > 0 else ('=0' if k == 0 else '<0')}{'coll' if t.free_indices else ''}"
        what = f"t**{k} vs {abs(k)}-fold product on {type(t).__name__}{list(t.shape)}"
    if isinstance(lhs, str) or isinstance(rhs, str):
        return None
    if isinstance(lhs, BaseException) and isinstance(rhs, BaseException):
        stats["both_raised"] += 1
        return None
    ok, where, worst = approx(lhs, rhs, float(st.get("cond", COND_MAX)), bool(st.get("aff")))
    if ok:
        stats["max_projective_defect"] = max(stats["max_projective_defect"], worst if math.isfinite(worst) else 0.0)
    stats["max_affine_defect"] = max(stats.get("max_affine_defect", 0.0), MAX_AFF_SEEN)
    if ok:
        return None
    return mk_violation(st, name, kind, f"{what}: differ in {where} (projective defect {worst:.3e}, tolerance {TOL:.0e})"
                        + (f"; lhs {type(lhs).__name__}: {lhs}" if isinstance(lhs, BaseException) else "")
                        + (f"; rhs {type(rhs).__name__}: {rhs}" if isinstance(rhs, BaseException) else ""))


# ---------------------------------------------------------------------------------------------------------------------


def new_stats():
    return {"steps": 0, "lines": 0, "applications": {}, "laws": {}, "ops": {}, "rep_invariants": 0, "both_raised": 0,
            "max_projective_defect": 0.0}


def run_c06_seed(seed: int, want_sample: bool = False) -> dict:
    from . import runner

    runner.worker_init()
    t0 = time.perf_counter()
    stats = new_stats()
    res = {"seed": seed, "violation": None, "stats": stats, "harness_error": None, "config": "seq"}
    try:
        rng = random.Random(seed)
        cfg = make_cfg(rng)
        case = Gen(rng, cfg).generate()
        case["seed"] = seed
        v, hist = run_case(case, stats)
        hd = hashlib.blake2b(repr([(h["i"], h["op"], h["status"]) for h in hist]).encode(), digest_size=10).hexdigest()
        res["golden_digest"] = hd + f":{stats['max_projective_defect']:.3e}"
        res["hsig"] = hashlib.blake2b(repr([(s["op"], s.get("k"), s.get("via")) for s in case["steps"]]
                                           + [r["k"] for r in case["recipes"]] + [cfg["main_dim"]]).encode(),
                                      digest_size=10).hexdigest()
        res["nontrivial"] = sum(1 for h in hist if h["op"] in ("apply", "compose", "pow", "inverse")
                                and h["status"] == "ok") >= 2
        if v is not None:
            res["violation"] = v
            res["case"] = case
            W.evict_caches(3)
            runner.restore_globals()
        elif want_sample:
            res["sample"] = {"seed": seed, "dim": cfg["main_dim"],
                             "pool": [f"{r['slot']}:{r['k']}" for r in case["recipes"]],
                             "history": [{k: s[k] for k in s if k != "i"} for s in case["steps"][:30]],
                             "max_projective_defect": stats["max_projective_defect"]}
    except Exception as e:  # noqa: BLE001
        res["harness_error"] = f"{type(e).__name__}: {e}\n{traceback.format_exc()}"
    finally:
        seam.set_ctx(None)
    res["wall"] = time.perf_counter() - t0
    return res


def replay_case(case: dict) -> dict:
    import json

    from . import runner

    runner.worker_init()
    stats = new_stats()
    res = {"violation": None, "harness_error": None, "stats": stats}
    try:
        case = json.loads(json.dumps(case))
        v, _ = run_case(case, stats)
        res["violation"] = v
        W.evict_caches(3)
    except Exception as e:  # noqa: BLE001
        res["harness_error"] = f"{type(e).__name__}: {e}\n{traceback.format_exc()}"
    finally:
        seam.set_ctx(None)
    return res
