"""Swarm configuration, pool recipes and fault plans. Pure data, JSON-able, derived from one random.Random."""
from __future__ import annotations

import math
import random

CONVEX = {
    3: [(0, 0), (1, 0), (0, 1)],
    4: [(0, 0), (1, 0), (1, 1), (0, 1)],
    5: [(0, 0), (2, 0), (3, 1), (1, 3), (0, 2)],
    6: [(1, 0), (2, 0), (3, 1), (2, 2), (1, 2), (0, 1)],
}


# recipes that hand a raw coordinate array to a constructor (the array may come in any memory layout)
LAYOUT_KINDS = {"pointcoll", "linecoll", "planecoll", "conic", "quadric", "quadriccoll", "transf", "transfcoll", "ctransf",
                "ctransfcoll", "cquadric", "polygon_arr", "polygoncoll", "tensorcoll", "tensor"}


def make_cfg(rng: random.Random, profile: str = "c12") -> dict:
    import os

    deep = os.environ.get("GEOSIM_TIER") == "thorough"
    cfg = {
        "profile": profile,
        "main_dim": rng.choice([2, 3, 3]),
        "n_steps": rng.choice([5, 8, 12, 16, 24, 32, 40, 60, 80] if deep else [5, 8, 12, 16, 24, 32, 40]),
        "n_clients": rng.choice([1, 2, 2, 3, 4, 6] if deep else [1, 2, 2, 3, 4]),
        "p_reask": rng.choice([0.2, 0.25, 0.3]),
        "p_fuzzy": rng.choice([0.0, 0.05, 0.15]),
        "p_degenerate": rng.choice([0.0, 0.1, 0.25, 0.4]),
        "big_coll": rng.random() < 0.12,
        "p_float": rng.choice([0.0, 0.3, 0.7]),
        "p_complex": rng.choice([0.0, 0.0, 0.1]),
        "p_scaled": rng.choice([0.0, 0.3, 0.6]),
        "narrow": rng.random() < 0.25,             # objects stored as int8/int16/int32/float32
        "p_noise": rng.choice([0.0, 0.0, 0.3]),   # rounding residues (1e-17 .. 1e-9) where exact zeros / relations were
        "cold_start": rng.random() < 0.5,
        "p_evict_step": rng.choice([0.0, 0.03, 0.08]),
        "hot": rng.choice([3, 4, 6]),
        "p_hot": rng.choice([0.5, 0.7, 0.85]),
        "quantum_mean": rng.choice([3, 30, 300]),
        "n_faults": rng.choice([0, 1, 1, 2, 3, 5] if deep else [0, 1, 1, 2, 3]),
        "fault_kinds": rng.sample(["async_interrupt", "async_memerr", "fp_trap", "cache_evict"], rng.randint(1, 4)),
        "p_ws_aim": 0.5,
        "p_layout": rng.choice([0.0, 0.0, 0.3]),   # Fortran-ordered / transposed-view coordinate arrays
        "p_mag": rng.choice([0.0, 0.0, 0.0, 0.2]),   # coordinates of magnitude 1e5..1e7 or 1e-4..1e-2
        "p_nonfinite": rng.choice([0.0, 0.0, 0.0, 0.0, 0.12]),   # inf / nan coordinates
        "p_poke": float(os.environ["GEOSIM_P_POKE"]) if os.environ.get("GEOSIM_P_POKE") else rng.choice([0.0, 0.05, 0.12]),   # the client edits a result it owns (Tensor.__setitem__)
    }
    warm = []
    if not cfg["cold_start"]:
        cand = [["e", 2], ["e", 3], ["e", 4], ["d", 3, 2], ["d", 2, 2], ["d", 3, 3], ["d", 4, 2]]
        rng.shuffle(cand)
        warm = cand[: rng.randint(1, len(cand))]
    cfg["warm"] = warm
    return cfg


# ---------------------------------------------------------------------------------------------------------------------


class PoolGen:
    def __init__(self, rng: random.Random, cfg: dict):
        self.rng = rng
        self.cfg = cfg
        self.recipes: list[dict] = []
        self.by: dict[str, list[int]] = {}
        self.pts: dict[int, list[tuple[int, list]]] = {1: [], 2: [], 3: []}
        self.pending_poke = None
        self.script: list[dict] = []   # scripted first steps (directed coverage of ops random binding cannot satisfy)

    def add(self, k: str, a=None, kw=None, tag=None) -> int:
        slot = len(self.recipes)
        r = {"slot": slot, "k": k}
        if a is not None:
            r["a"] = a
        if kw:
            r["kw"] = kw
        if k in LAYOUT_KINDS and self.rng.random() < self.cfg.get("p_layout", 0.0):
            r["layout"] = self.rng.choice(["F", "M"])
        self.recipes.append(r)
        self.by.setdefault(tag or k, []).append(slot)
        return slot

    # -- coordinates
    def ivec(self, n, lo=-4, hi=4, nonzero=True):
        while True:
            v = [self.rng.randint(lo, hi) for _ in range(n)]
            if not nonzero or any(v):
                return v

    def dt(self):
        r = self.rng.random()
        if r < self.cfg["p_complex"]:
            return "c"
        if r < self.cfg["p_complex"] + self.cfg["p_float"]:
            return "f32" if self.cfg.get("narrow") and self.rng.random() < 0.3 else "f"
        if self.cfg.get("narrow") and self.rng.random() < 0.4:
            return self.rng.choice(["i16", "i32", "i8"])   # pixel / fixed-point coordinates
        return "i"

    def hom(self, dim, allow_inf=True):
        """Homogeneous integer coordinates of a point; sometimes degenerate w.r.t. earlier points."""
        rng = self.rng
        prev = self.pts[dim]
        if prev and rng.random() < self.cfg["p_degenerate"]:
            c = rng.random()
            if c < 0.35 or len(prev) < 2:
                v = list(rng.choice(prev)[1])  # coincident
            else:
                (_, p), (_, q) = rng.sample(prev, 2)  # collinear with two earlier points
                k = rng.choice([-1, 2, 3])
                if p[-1] == 1 and q[-1] == 1:
                    v = [p[i] + k * (q[i] - p[i]) for i in range(dim)] + [1]
                else:
                    v = [p[i] + k * q[i] for i in range(dim + 1)]
            if not any(v):
                v[0] = 1
            return self.noisy(v)
        v = self.ivec(dim) + [1]
        if rng.random() < self.cfg.get("p_nonfinite", 0.0):
            # what `p / 0` or an overflowed computation upstream leaves in a coordinate array
            v = [float(x) for x in v]
            v[rng.randrange(dim + 1)] = rng.choice([float("inf"), float("-inf"), float("nan")])
            return v
        if rng.random() < self.cfg.get("p_mag", 0.0):
            # survey / pixel / micro-scale coordinates: the library's tolerances are absolute (1e-8), its code paths
            # (normalisation, isclose, is_multiple) are not scale free
            f_ = rng.choice([1e5, 3e6, 1e-4, 2.5e-3])
            return [x * f_ for x in v[:-1]] + [1]
        if allow_inf and rng.random() < 0.12:
            v[-1] = 0
            if not any(v):
                v[0] = 1
            return self.noisy(v, at=len(v) - 1)
        return v

    NOISE = [5e-17, -5.5e-17, 1e-12, -3e-10, 2e-9]

    def noisy(self, v, at=None):
        """Results of float computations carry rounding residues where exact arithmetic gives 0 or an exact relation;
        tolerance-based code (isinf, is_zero, contains) treats them as zero, exact comparisons do not."""
        rng = self.rng
        if rng.random() >= self.cfg.get("p_noise", 0.0):
            return v
        v = list(v)
        i = at if at is not None else rng.randrange(len(v))
        if at is not None and rng.random() < 0.6:
            # written into the array AFTER construction (recipe key "poke"): operands that are results of library
            # computations (t * p, views, einsum outputs) never went through a constructor either
            self.pending_poke = [[i], rng.choice(self.NOISE)]
            return v
        v[i] = v[i] + rng.choice(self.NOISE)
        return v

    def scaled(self, v):
        if v[-1] == 1 and self.rng.random() < self.cfg["p_scaled"]:
            k = self.rng.choice([2, -1, -2, 3, 0.5])
            return [x * k for x in v]
        return v

    def point(self, dim, allow_inf=True):
        self.pending_poke = None
        v = self.hom(dim, allow_inf)
        poke, self.pending_poke = self.pending_poke, None
        how = "hom"
        vv = self.scaled(v)
        dt = self.dt()
        if any(_frac(x) for x in vv) and dt in ("i", "i8", "i16", "i32"):
            dt = "f"
        if vv is v and v[-1] == 1 and self.rng.random() < 0.4:
            how = "affine"
        elif self.rng.random() < 0.2:
            how = "nocopy"
        if poke is not None:
            dt, how = ("c" if dt == "c" else "f"), "hom"
        s = self.add("point", [vv], {"how": how, "dt": dt}, tag=f"point{dim}")
        if poke is not None:
            self.recipes[-1]["poke"] = poke
        self.pts[dim].append((s, v))
        return s

    def pointcoll(self, dim, shape):
        self.pending_poke = None
        n = math.prod(shape)
        rows = [self.scaled(self.hom(dim)) for _ in range(n)]
        arr = rows
        if len(shape) == 2:
            arr = [rows[i * shape[1]:(i + 1) * shape[1]] for i in range(shape[0])]
        dt = self.dt()
        if dt in ("i", "i8", "i16", "i32") and any(_frac(x) for r in rows for x in r):
            dt = "f"
        how = "from_array" if self.rng.random() < 0.3 else "ctor"
        return self.add("pointcoll", [arr], {"dt": dt, "how": how}, tag=f"pointcoll{dim}")

    def coll_shape(self):
        rng = self.rng
        if self.cfg["big_coll"] and rng.random() < 0.5:
            return [rng.choice([64, 65])]
        if rng.random() < 0.2:
            return [rng.choice([1, 2, 3]), rng.choice([1, 2, 3])]
        return [rng.choice([1, 2, 3, 3, 5])]

    def sym(self, n, lo=-3, hi=3):
        m = [[0] * n for _ in range(n)]
        for i in range(n):
            for j in range(i, n):
                m[i][j] = m[j][i] = self.rng.randint(lo, hi)
        if self.cfg.get("profile") == "c12" and self.rng.random() < 0.12:
            # the same quadratic form written as a triangular coefficient matrix (x'Ax only sees A + A'): the
            # constructors accept it, so queries get it as an operand
            for i in range(n):
                for j in range(i + 1, n):
                    m[i][j], m[j][i] = 2 * m[i][j], 0
        return m

    def invertible(self, n, lo=-3, hi=3):
        for _ in range(50):
            m = [[self.rng.randint(lo, hi) for _ in range(n)] for _ in range(n)]
            d = _det(m)
            if 1 <= abs(d) <= 6:
                return m
        return [[1 if i == j else 0 for j in range(n)] for i in range(n)]

    def planar_polygon(self, nv, through_origin=None):
        rng = self.rng
        while True:
            u, v = self.ivec(3, -2, 2), self.ivec(3, -2, 2)
            cr = [u[1] * v[2] - u[2] * v[1], u[2] * v[0] - u[0] * v[2], u[0] * v[1] - u[1] * v[0]]
            if any(cr):
                break
        o = [0, 0, 0] if through_origin or (through_origin is None and rng.random() < 0.3) else self.ivec(3, -3, 3)
        return [[o[i] + a * u[i] + b * v[i] for i in range(3)] + [1] for a, b in CONVEX[nv]]

    # -- pool
    def generate(self) -> list[dict]:
        rng, cfg = self.rng, self.cfg
        d = cfg["main_dim"]
        other = 5 - d
        for _ in range(rng.randint(4, 7)):
            self.point(d)
        for _ in range(2):
            self.point(other)
        if rng.random() < 0.3:
            # objects of the projective line: points (also complex: CP1), a 2x2 transformation, collections
            self.add("point", [self.ivec(1) + [1]], {"how": "hom", "dt": self.dt()}, tag="point1")
            self.add("point", [self.ivec(2)], {"how": "hom", "dt": "c" if rng.random() < 0.5 else "i"}, tag="point1")
            self.add("point", [[rng.randint(-4, 4), rng.choice([1, 2, -1])]], {"how": "hom", "dt": self.dt()}, tag="point1")
            self.add("point", [[rng.randint(-4, 4), 1]], {"how": "hom", "dt": "i"}, tag="point1")
            self.add("transf", [self.invertible(2)], {"dt": rng.choice(["f", "i"])}, tag="transf1")
            k = rng.choice([2, 3, 64]) if cfg["big_coll"] else rng.choice([2, 3])
            self.add("pointcoll", [[[rng.randint(-4, 4), 1] for _ in range(k)]], {"dt": self.dt()}, tag="pointcoll1")
            if rng.random() < 0.5:
                self.add("transfcoll", [[self.invertible(2) for _ in range(k)]], {"dt": rng.choice(["f", "i"])},
                         tag="transfcoll1")
        shape = self.coll_shape()
        pc1 = self.pointcoll(d, shape)
        pc2 = self.pointcoll(d, shape if rng.random() < 0.7 else self.coll_shape())
        if rng.random() < 0.4:
            self.pointcoll(other, self.coll_shape())
        if rng.random() < 0.15:
            self.add("emptycoll", [d + 1], tag=f"pointcoll{d}")   # a collection with zero elements
        if rng.random() < 0.08:
            self.add("emptycoll", [d + 1, "transf"], tag=f"transfcoll{d}")

        P = self.by[f"point{d}"]
        # lines
        for _ in range(rng.randint(2, 3)):
            if d == 2 and rng.random() < 0.5:
                c = self.ivec(3)
                if rng.random() < 0.15:
                    c = [0, 0, rng.choice([1, 2, -1])]
                self.add("line", [c], {"dt": self.dt()}, tag=f"line{d}")
            else:
                p, q = rng.sample(P, 2)
                self.add("line_pq", [p, q], tag=f"line{d}")
        if rng.random() < 0.5 * (1 if cfg.get("p_noise") else 0.2):
            # a line through a coordinate point (here the origin): one row of its matrix vanishes -- or is a rounding
            # residue when the second point is only numerically a multiple of the first
            a_ = self.ivec(d, -3, 3)
            k_ = rng.choice([2, -1, 3])
            b_ = [k_ * x for x in a_]
            if cfg.get("p_noise"):
                j_ = rng.randrange(d)
                b_[j_] = b_[j_] + rng.choice(self.NOISE)
            pa = self.add("point", [a_ + [1]], {"how": "hom", "dt": "f"}, tag="aux")
            pb = self.add("point", [b_ + [1]], {"how": "hom", "dt": "f"}, tag="aux")
            self.add("line_pq", [pa, pb], tag=f"line{d}")
        self.add("linecoll_pq", [pc1, pc2], tag=f"linecoll{d}")
        if rng.random() < 0.35 and len(self.pts[d]) >= 2:
            # partial incidence: a line through two pool points and a collection of which SOME points lie on it (in
            # 3D also a plane with some points in it). Code that treats incident and non-incident elements
            # differently (masks, fixed points, except-branches) only runs on such mixed collections.
            (sp, vp), (sq, vq) = rng.sample(self.pts[d], 2)
            if vp != vq:
                self.add("line_pq", [sp, sq], tag=f"line{d}")
                rows = []
                for _ in range(rng.choice([2, 3, 4, 5])):
                    if rng.random() < 0.5:
                        k_ = rng.choice([2, 3, -1, 0.5, -2])
                        if vp[-1] == 1 and vq[-1] == 1:
                            rows.append([vp[i] + k_ * (vq[i] - vp[i]) for i in range(d)] + [1])
                        else:
                            rows.append([vp[i] + k_ * vq[i] for i in range(d + 1)])
                    else:
                        rows.append(self.ivec(d) + [1])
                    if not any(rows[-1]):
                        rows[-1][0] = 1
                frac = any(_frac(x) for r_ in rows for x in r_)
                ln_ = len(self.recipes) - 1
                pc_ = self.add("pointcoll", [rows], {"dt": "f" if frac or rng.random() < 0.6 else "i"},
                               tag=f"pointcoll{d}")
                # random binding would pair exactly this line with exactly this collection once in a blue moon
                related = [("sub_contains", [ln_, pc_]), ("mirror", [ln_, pc_]), ("project", [ln_, pc_]),
                           ("line_perpendicular", [ln_, pc_]), ("dist", [ln_, pc_]), ("dist", [pc_, ln_])]
                if d == 3 and len(self.pts[3]) >= 3:
                    sr, vr = rng.choice([x for x in self.pts[3] if x[0] not in (sp, sq)])
                    pl_ = self.add("plane_pqr", [sp, sq, sr], tag="plane")
                    related += [("sub_contains", [pl_, pc_]), ("mirror", [pl_, pc_]), ("project", [pl_, pc_]),
                                ("join_lp", [ln_, pc_])]
                for op_, args_ in rng.sample(related, 2):
                    self.script.append({"op": op_, "args": args_})
        if d == 2:
            self.add("linecoll", [[self.ivec(3) for _ in range(rng.choice([1, 2, 3]))]], {"dt": self.dt()},
                     tag="linecoll2")
        op_ = self.by[f"point{other}"]
        self.add("line_pq", [op_[0], op_[1]], tag=f"line{other}")
        # planes
        if d == 3:
            for _ in range(rng.randint(2, 3)):
                if rng.random() < 0.5:
                    c = self.ivec(4)
                    if rng.random() < 0.15:
                        c = [0, 0, 0, rng.choice([1, -2])]
                    elif rng.random() < 0.3:
                        c[3] = 0
                    self.add("plane", [c], {"dt": self.dt()}, tag="plane")
                else:
                    self.add("plane_pqr", rng.sample(P, 3), tag="plane")
            self.add("planecoll", [[self.ivec(4) for _ in range(rng.choice([1, 2, 3, 5]))]], {"dt": self.dt()},
                     tag="planecoll")
        elif rng.random() < 0.3:
            self.add("plane", [self.ivec(4)], {"dt": "i"}, tag="plane")

        # quadrics
        if d == 2:
            self.add("conic", [self.sym(3)], {"dual": rng.random() < 0.2}, tag="conic")
            self.add("circle", [rng.choice(P + [None]), rng.choice([1, 2, 0.5])], tag="conic")
            if rng.random() < 0.6:
                self.add("ellipse", [rng.choice(P + [None]), rng.choice([1, 2, 3]), rng.choice([1, 2, 0.5])],
                         tag="conic")
            if rng.random() < 0.6:
                g, h = self.ivec(3), self.ivec(3)
                m = [[g[i] * h[j] + g[j] * h[i] for j in range(3)] for i in range(3)]
                self.add("conic", [m], tag="conic")
            if rng.random() < 0.6:
                self.add("quadriccoll", [[self.sym(3) for _ in range(rng.choice([1, 2, 3]))]],
                         {"dual": rng.random() < 0.2}, tag="quadriccoll")
            if rng.random() < 0.3:
                self.add("sphere", [None, 1], tag="quadric3")
        else:
            c = rng.random()
            self.add("sphere", [rng.choice(P + [None]), rng.choice([1, 2, 0.5])], tag="quadric3")
            if c < 0.5:
                self.add("quadric", [self.sym(4)], {"dual": rng.random() < 0.2}, tag="quadric3")
            if rng.random() < 0.5:
                if rng.random() < 0.3:
                    self.add("cone", [None, None, rng.choice([1, 2])], tag="quadric3")
                else:
                    v, b = rng.sample(P, 2)
                    self.add("cone", [v, b, rng.choice([1, 2])], tag="quadric3")
            if rng.random() < 0.4:
                if rng.random() < 0.3:
                    self.add("cylinder", [None, None, rng.choice([1, 2])], tag="quadric3")
                else:
                    v, b = rng.sample(P, 2)
                    self.add("cylinder", [v, b, rng.choice([1, 2])], tag="quadric3")
            if rng.random() < 0.5:
                g, h = self.ivec(4), self.ivec(4)
                m = [[g[i] * h[j] + g[j] * h[i] for j in range(4)] for i in range(4)]
                self.add("quadric", [m], tag="quadric3")
            if rng.random() < 0.5:
                self.add("quadriccoll", [[self.sym(4) for _ in range(rng.choice([1, 2, 3]))]], tag="quadriccoll")
            if rng.random() < 0.3:
                self.add("circle", [None, 1], tag="conic")

        # transformations
        for _ in range(rng.randint(2, 3)):
            c = rng.random()
            if c < 0.45:
                self.add("transf", [self.invertible(d + 1)], {"dt": rng.choice(["f", "i"])}, tag=f"transf{d}")
            elif c < 0.6:
                self.add("translation", [self.ivec(d, -3, 3, False)], tag=f"transf{d}")
            elif c < 0.8:
                ang = rng.choice([0.5, -1.25, math.pi, math.pi / 2])
                if d == 2:
                    self.add("rotation", [ang], tag="transf2")
                else:
                    self.add("rotation", [ang, rng.choice(P)], tag="transf3")
            elif c < 0.9:
                self.add("scaling", [[rng.choice([1, 2, -1, 0.5, 3]) for _ in range(d)]], tag=f"transf{d}")
            else:
                ax = self.by.get("plane" if d == 3 else "line2")
                if ax:
                    self.add("reflection", [rng.choice(ax)], tag=f"transf{d}")
                else:
                    self.add("transf", [self.invertible(d + 1)], {"dt": "f"}, tag=f"transf{d}")
        n = rng.choice([1, 2, 3, 64, 65]) if cfg["big_coll"] else rng.choice([1, 2, 3])
        self.add("transfcoll", [[self.invertible(d + 1) for _ in range(n)]], {"dt": "f"}, tag=f"transfcoll{d}")
        self.add("transf", [self.invertible(other + 1)], {"dt": "f"}, tag=f"transf{other}")

        # polytopes
        p, q = rng.sample(P, 2)
        self.add("segment", [p, q], tag="segment")
        self.add("segmentcoll", [pc1, pc2], tag="segmentcoll")
        if d == 2:
            nv = rng.choice([4, 5, 6])
            o = self.ivec(2, -3, 3, False)
            k = rng.choice([1, 2])
            self.add("polygon_arr", [[[o[0] + k * a, o[1] + k * b, 1] for a, b in CONVEX[nv]]], {"dt": self.dt()},
                     tag="polygon")
            self.add("triangle", rng.sample(P, 3), tag="polygon")
            if rng.random() < 0.5:
                self.add("regpoly", [rng.choice(P), rng.choice([1, 2]), rng.choice([3, 4, 5, 6])], tag="polygon")
            m = rng.choice([1, 2, 3])
            nv = rng.choice([3, 4, 5])
            polys = []
            for _ in range(m):
                o = self.ivec(2, -3, 3, False)
                polys.append([[o[0] + a, o[1] + b, 1] for a, b in CONVEX[nv]])
            self.add("polygoncoll", [polys], {"dt": self.dt()}, tag="polygoncoll")
        else:
            nv = rng.choice([4, 5, 6])
            self.add("polygon_arr", [self.planar_polygon(nv)], {"dt": self.dt()}, tag="polygon")
            self.add("triangle", rng.sample(P, 3), tag="polygon")
            if rng.random() < 0.5:
                self.add("regpoly", [rng.choice(P), rng.choice([1, 2]), rng.choice([3, 4, 5]), rng.choice(P)],
                         tag="polygon")
            m = rng.choice([1, 2, 3, 3])
            nv = rng.choice([3, 4, 4, 5])
            self.add("polygoncoll", [[self.planar_polygon(nv) for _ in range(m)]], {"dt": self.dt()},
                     tag="polygoncoll")
            if rng.random() < 0.7:
                a = self.ivec(3, -2, 2, False)
                e = [rng.choice([1, 2, 3]) for _ in range(3)]
                pts = [self.add("point", [a + [1]], {"how": "hom", "dt": "i"}, tag="cubpt")]
                for i in range(3):
                    b = list(a)
                    b[i] += e[i]
                    pts.append(self.add("point", [b + [1]], {"how": "hom", "dt": "i"}, tag="cubpt"))
                self.add("cuboid", pts, tag="polyhedron")
            if rng.random() < 0.5:
                self.add("simplex", [rng.sample(P, 4)], tag="polyhedron")
            if rng.random() < 0.3:
                self.add("rectangle", [[self.add("point", [v], {"how": "hom", "dt": "i"}, tag="rectpt")
                                        for v in self.planar_polygon(4)]], tag="polygon")

        # generic tensors
        if rng.random() < 0.7:
            r = rng.choice([1, 2, 2, 3])
            n = rng.choice([2, 3, 4])
            cov = rng.choice([True, False, [0]])
            self.add("tensor", [_nested(rng, [n] * r)], {"cov": cov, "dt": self.dt()}, tag="tensor")
        if rng.random() < 0.5:
            self.add("tensorcoll", [_nested(rng, [rng.choice([1, 2, 3]), 3, 3])],
                     {"cov": rng.choice([True, False, [0]]), "rank": 2, "dt": self.dt()}, tag="tensor")
        if rng.random() < 0.5:
            self.add("eps", [rng.choice([2, 3, 4]), rng.random() < 0.5], tag="tensor")
        if rng.random() < 0.4:
            self.add("delta", [rng.choice([2, 3]), rng.choice([1, 2])], tag="tensor")

        if rng.random() < 0.08:
            # coefficient vectors as they come out of a computation: one entry is rounding noise relative to the rest
            # (a "cubic" whose leading coefficient is 1e-18, a point whose last coordinate is 3e-17)
            c_ = [rng.choice([1e-18, -3e-17, 2e-16]), 1.0, float(rng.randint(-3, 3)), float(rng.randint(1, 3))]
            rng.shuffle(c_)
            pn = self.add("point", [c_[: rng.choice([3, 4])]], {"how": "nocopy", "dt": "f"}, tag="aux")
            for op_ in rng.sample(["u_roots_arr", "u_roots_tensor", "repr", "is_zero", "u_is_multiple_all"], 2):
                self.script.append({"op": op_, "args": [pn] if op_ != "u_is_multiple_all" else [pn, pn]})
        self.scenarios(d)
        # tensor diagrams over pool objects (calculate()/copy() are queries on them; builder calls are not generated)
        if rng.random() < 0.5:
            tr = self.by.get(f"transf{d}", [])
            pts = self.by.get(f"point{d}", [])
            hyp = self.by.get("plane" if d == 3 else "line2", [])
            c = rng.random()
            if c < 0.4 and tr and pts:
                self.add("diagram", [], {"edges": [[rng.choice(pts), rng.choice(tr)]]}, tag="diagram")
            elif c < 0.7 and hyp and pts:
                self.add("diagram", [], {"edges": [[rng.choice(pts), rng.choice(hyp)]]}, tag="diagram")
            elif pts:
                self.add("diagram", [], {"nodes": rng.sample(pts, 2)}, tag="diagram")
        # the public module constants as operands (users pass geometer.I, infty, ... to queries, print them, ...)
        if rng.random() < 0.5:
            names = ["I", "J", "infty", "absolute_conic"] if d == 2 else ["infty_plane", "I", "J", "infty"]
            for nm in rng.sample(names, rng.randint(1, 3)):
                self.add("const", [nm], tag="const")
        # aliases: sharing chains exist from step 0
        n0 = len(self.recipes)
        for _ in range(rng.randint(2, 5)):
            of = rng.randrange(n0)
            k = self.recipes[of]["k"]
            how = rng.choice(["copy", "copy", "ctor", "from_tensor", "item"])
            if how == "ctor" and k in ("circle", "ellipse", "sphere", "cone", "cylinder", "regpoly", "cuboid", "simplex",
                                       "triangle", "rectangle", "segment", "segmentcoll", "eps", "delta", "rotation",
                                       "translation", "scaling", "reflection", "line_pq", "plane_pqr", "linecoll_pq"):
                how = "copy"
            if how == "item":
                if k in ("pointcoll", "linecoll", "linecoll_pq", "planecoll", "quadriccoll", "transfcoll",
                         "polygoncoll", "segmentcoll", "tensorcoll"):
                    self.add("alias", [of, "item", rng.choice([0, {"s": [0, 1, None]}, {"s": [None, None, None]}, -1])],
                             tag="alias")
                    continue
                how = "copy"
            self.add("alias", [of, how], tag="alias")
        return self.recipes


def _scenarios(self, d):
    """Hand-picked configurations for operations whose preconditions random binding practically never meets."""
    rng = self.rng
    if rng.random() > 0.2:
        return

    def pt(c, dt="f"):
        return self.add("point", [list(c) + [1]], {"how": "hom", "dt": dt}, tag="scenpt")

    if d == 3 and rng.random() < 0.3:
        # two 3D segment collections whose pairs are MIXED: pair 0 crosses (coplanar lines), pair 1 is skew
        # (intersect raises NotCoplanar today; the point is that it must not touch its operands on the way)
        a1 = self.add("pointcoll", [[[0, 0, 0, 1], [0, 0, 0, 1]]], {"dt": "i"}, tag="pointcoll3")
        a2 = self.add("pointcoll", [[[2, 2, 0, 1], [2, 0, 0, 1]]], {"dt": "i"}, tag="pointcoll3")
        b1 = self.add("pointcoll", [[[0, 2, 0, 1], [0, 1, 1, 1]]], {"dt": "i"}, tag="pointcoll3")
        b2 = self.add("pointcoll", [[[2, 0, 0, 1], [0, -1, 3, 1]]], {"dt": "i"}, tag="pointcoll3")
        sa = self.add("segmentcoll", [a1, a2], tag="segmentcoll")
        sb = self.add("segmentcoll", [b1, b2], tag="segmentcoll")
        one = self.add("segment", [self.add("point", [[0, 1, 1, 1]], {"how": "hom", "dt": "i"}, tag="aux"),
                                   self.add("point", [[0, -1, 3, 1]], {"how": "hom", "dt": "i"}, tag="aux")], tag="segment")
        self.script.append({"op": "seg_intersect", "args": [sa, sb]})
        self.script.append({"op": "seg_intersect", "args": [sa, one]})
        self.script.append({"op": "seg_contains", "args": [sb, b1]})
        return
    if d == 3 and rng.random() < 0.3:
        # 3D lines through one point (coplanar pairs: angle bisectors, meet and join of lines are defined) and a
        # pair of line collections of which only SOME pairs are coplanar (join/meet must refuse without side effects)
        o = [rng.randint(-2, 2) for _ in range(3)]
        dirs = [(1, 0, 0), (0, 1, 0), (1, 1, 0), (0, 0, 1), (1, 2, -1)]
        rng.shuffle(dirs)
        po = pt(o, "i")
        ends = [pt([o[i] + v[i] for i in range(3)], rng.choice(["i", "f"])) for v in dirs[:3]]
        ls = [self.add("line_pq", [po, e], tag="line3") for e in ends]
        self.script.append({"op": "angle_bisectors", "args": ls[:2]})
        self.script.append({"op": "meet_ll", "args": [ls[0], ls[2]]})
        self.script.append({"op": "join_ll", "args": [ls[1], ls[2]]})
        self.script.append({"op": "angle_ll", "args": ls[:2]})
        a1 = self.add("pointcoll", [[[0, 0, 0, 1], [0, 0, 0, 1]]], {"dt": "i"}, tag="pointcoll3")
        a2 = self.add("pointcoll", [[[2, 2, 0, 1], [2, 0, 0, 1]]], {"dt": "i"}, tag="pointcoll3")
        b1 = self.add("pointcoll", [[[0, 2, 0, 1], [0, 1, 1, 1]]], {"dt": "i"}, tag="pointcoll3")
        b2 = self.add("pointcoll", [[[2, 0, 0, 1], [0, -1, 3, 1]]], {"dt": "i"}, tag="pointcoll3")
        la = self.add("linecoll_pq", [a1, a2], tag="linecoll3")
        lb = self.add("linecoll_pq", [b1, b2], tag="linecoll3")
        self.script.append({"op": "join_ll", "args": [la, lb]})
        self.script.append({"op": "meet_ll", "args": [la, lb]})
        self.script.append({"op": "angle_bisectors", "args": [ls[0], ls[1]]})
        return
    if d == 3 and rng.random() < 0.4:
        # 3D polygons met by lines/segments of which SOME lie in / parallel to the supporting planes: the
        # except-LinearDependenceError recovery paths of PolygonTensor.intersect
        sq = lambda z: [[0, 0, z, 1], [2, 0, z, 1], [2, 2, z, 1], [0, 2, z, 1]]  # noqa: E731
        pc = self.add("polygoncoll", [[sq(1), sq(2)]], {"dt": rng.choice(["i", "f"])}, tag="polygoncoll")
        a = self.add("pointcoll", [[[1, 1, 0, 1], [0, 0, 2, 1]]], {"dt": "i"}, tag="pointcoll3")
        b = self.add("pointcoll", [[[1, 1, 3, 1], [1, 1, 2, 1]]], {"dt": "i"}, tag="pointcoll3")
        sc = self.add("segmentcoll", [a, b], tag="segmentcoll")
        lc = self.add("linecoll_pq", [a, b], tag="linecoll3")
        self.script.append({"op": "poly_intersect", "args": [pc, sc]})
        self.script.append({"op": "poly_intersect", "args": [pc, lc]})
        self.script.append({"op": "area", "args": [pc]})
        self.script.append({"op": "poly_intersect", "args": [pc, sc]})
        return
    if d == 2:
        c = rng.randrange(3)
        if c == 0 and rng.random() < 0.3:   # NoIncidence path: a point that is not on the conic
            c1 = self.add("circle", [None, 1], tag="conic")
            ctr = pt((0, 2), "i")
            c2 = self.add("circle", [ctr, 2], tag="conic")
            xy = [(0, -1), (0, 1), (1, 0), (0, 0), (0, 4), (2, 2)]
            xy[rng.randrange(6)] = (3, 3)     # which of the six incidences fails decides how far the call gets
            ps = [pt(x, "i") for x in xy]
            self.script.append({"op": "from_points_and_conics", "args": ps + [c1, c2]})
            g, h = [1, 0, 0], [0, 1, -1]
            m = [[g[i] * h[j] + g[j] * h[i] for j in range(3)] for i in range(3)]
            dq = self.add("conic", [m], {"dual": True}, tag="conic")   # degenerate DUAL conic
            ln = self.add("line", [[1, 1, 1]], {"dt": "i"}, tag="line2")
            self.script.append({"op": "q_intersect", "args": [dq, ln]})
            self.script.append({"op": "q_components", "args": [dq]})
        elif c == 0:   # Transformation.from_points_and_conics: points on the conics
            c1 = self.add("circle", [None, 1], tag="conic")
            ctr = pt((0, 2), "i")
            c2 = self.add("circle", [ctr, 2], tag="conic")
            ps = [pt(x, "i") for x in ((0, -1), (0, 1), (1, 0), (0, 0), (0, 4), (2, 2))]
            self.script.append({"op": "from_points_and_conics", "args": ps + [c1, c2]})
            l1 = self.add("ptlist", [ps[:3]], tag="seq")
            l2 = self.add("ptlist", [ps[3:]], tag="seq")
            self.script.append({"op": "from_points_and_conics_lists", "args": [l1, l2, c1, c2]})
            self.script.append({"op": "polygon_from_list", "args": [l1]})
            self.script.append({"op": "from_points_and_conics_lists", "args": [l1, l2, c1, c2]})
            self.script.append({"op": "q_tangent", "args": [c1, ps[0]]})
        elif c == 1:  # Conic.from_tangent / from_crossratio / from_foci
            a, b, c_, dd, e = (pt(x) for x in ((-1.5, 0.5), (0, -1), (1.5, 0.5), (1.5, -0.5), (0, 1)))
            l = self.add("line", [[0, 1, -1]], {"dt": "i"}, tag="line2")
            self.script.append({"op": "conic_from_tangent", "args": [l, a, b, c_, dd]})
            self.script.append({"op": "conic_from_crossratio", "args": [e, b, c_, dd], "p": {"cr": 2}})
            f1, f2, bb = pt((0, 2)), pt((0, -2)), pt((0, 3))
            self.script.append({"op": "conic_from_foci", "args": [f1, f2, bb]})
        elif c == 2 and rng.random() < 0.5:   # Transformation.from_points (2D) and a polygon given by its edges
            src = [(0, 0), (1, 0), (0, 1), (1, 1)]
            k, sh = rng.choice([1, 2, 3]), (rng.randint(-2, 2), rng.randint(-2, 2))
            a = [pt(x, "i") for x in src]
            b = [pt((k * x[0] + sh[0], 2 * x[1] + sh[1]), "i") for x in src]
            self.script.append({"op": "from_points2", "args": a + b})
            segs = [self.add("segment", [a[i], a[j]], tag="segment") for i, j in ((0, 1), (1, 3), (3, 2))]
            self.script.append({"op": "polygon_from_segments", "args": segs})
        else:         # four concurrent lines / a harmonic range
            o = (rng.randint(-2, 2), rng.randint(-2, 2))
            ls = []
            for dx, dy in ((1, 0), (0, 1), (1, 1), (1, -1)):
                ls.append(self.add("line", [[dy, -dx, dx * o[1] - dy * o[0]]], {"dt": "i"}, tag="line2"))
            self.script.append({"op": "crossratio_lines", "args": ls})
            self.script.append({"op": "is_concurrent4", "args": ls})
            ps = [pt((k, 2 * k + 1), "i") for k in (0, 1, 2, 4)]
            self.script.append({"op": "crossratio_pts", "args": ps})
            self.script.append({"op": "harmonic_set", "args": ps[:3]})
    else:
        c = rng.randrange(2)
        if c == 0:   # Transformation.from_points in 3D: five points in general position and their images
            src = [(0, 0, 0), (1, 0, 0), (0, 1, 0), (0, 0, 1), (1, 1, 1)]
            sh = [rng.randint(-2, 2) for _ in range(3)]
            k = rng.choice([1, 2, 3])
            a = [pt(x, "i") for x in src]
            b = [pt(tuple(k * x[i] + sh[i] for i in range(3)), "i") for x in src]
            self.script.append({"op": "from_points3", "args": a + b})
        elif False:
            pass
        else:        # five planes through one point; four coaxial planes
            o = [rng.randint(-2, 2) for _ in range(3)]
            pls = []
            for nrm in ((1, 0, 0), (0, 1, 0), (0, 0, 1), (1, 1, 0), (1, 1, 1)):
                pls.append(self.add("plane", [list(nrm) + [-sum(nrm[i] * o[i] for i in range(3))]], {"dt": "i"},
                                    tag="plane"))
            self.script.append({"op": "is_coplanar_planes", "args": pls})
            ax = []
            for nrm in ((1, 0, 0), (0, 1, 0), (1, 1, 0), (1, -1, 0)):
                ax.append(self.add("plane", [list(nrm) + [-sum(nrm[i] * o[i] for i in range(3))]], {"dt": "i"},
                                   tag="plane"))
            self.script.append({"op": "crossratio_planes", "args": ax})
            self.script.append({"op": "angle_ee", "args": ax[:2]})


PoolGen.scenarios = _scenarios


def _frac(x) -> bool:
    """a coordinate that an integer dtype cannot hold"""
    return isinstance(x, float) and (not math.isfinite(x) or x != int(x))


def _nested(rng, shape):
    if len(shape) == 1:
        return [rng.randint(-3, 3) for _ in range(shape[0])]
    return [_nested(rng, shape[1:]) for _ in range(shape[0])]


def _det(m):
    n = len(m)
    if n == 1:
        return m[0][0]
    if n == 2:
        return m[0][0] * m[1][1] - m[0][1] * m[1][0]
    return sum((-1) ** j * m[0][j] * _det([r[:j] + r[j + 1:] for r in m[1:]]) for j in range(n))


def gen_pool(rng: random.Random, cfg: dict) -> list[dict]:
    g = PoolGen(rng, cfg)
    recipes = g.generate()
    cfg["script"] = g.script
    return recipes
