"""Delta-debugging of a violating case: steps, faults, schedule, pool. Replays never involve a PRNG."""
from __future__ import annotations

import copy
import json


def _refs_of_recipe(r) -> set[int]:
    """Slots a recipe depends on (integers in positional args of builders that take slots)."""
    k = r["k"]
    a = r.get("a", [])
    slotty = {
        "line_pq": [0, 1], "linecoll_pq": [0, 1], "plane_pqr": [0, 1, 2], "circle": [0], "ellipse": [0], "sphere": [0],
        "cone": [0, 1], "cylinder": [0, 1], "rotation": [1], "reflection": [0], "segment": [0, 1],
        "segmentcoll": [0, 1], "triangle": [0, 1, 2], "regpoly": [0, 3], "cuboid": [0, 1, 2, 3], "alias": [0], "twin": [0],
    }
    out = set()
    for i in slotty.get(k, []):
        if i < len(a) and isinstance(a[i], int) and not isinstance(a[i], bool):
            out.add(a[i])
    if k in ("polygon", "rectangle", "simplex", "ptlist") and a:
        out.update(x for x in a[0] if isinstance(x, int))
    if k == "diagram":
        for e in r.get("kw", {}).get("edges", []) or (a[0] if a else []):
            out.update(e)
        for n in r.get("kw", {}).get("nodes", []) or (a[1] if len(a) > 1 else []):
            out.add(n)
    return out


def same_class(v, target) -> bool:
    return v is not None and v.get("signature") == target.get("signature")


def minimise(case: dict, target: dict, run, budget: int = 300, log=None, step_slots=None) -> tuple[dict, dict, int]:
    """run(case) -> violation dict | None. Returns (minimised case, its violation, executions used)."""
    used = 0
    if step_slots is None:
        step_slots = lambda s: s.get("args", [])  # noqa: E731
    best = copy.deepcopy(case)
    best_v = target

    def attempt(cand) -> bool:
        nonlocal used, best, best_v
        if used >= budget:
            return False
        used += 1
        v = run(cand)
        if same_class(v, target):
            best, best_v = cand, v
            return True
        return False

    def live_steps(c):
        rem = set(c.get("removed", []))
        return [s["i"] for s in c["steps"] if s["i"] not in rem]

    # 0. cut everything after the violating step
    vstep = target.get("step")
    if isinstance(vstep, int) and vstep >= 0:
        cand = copy.deepcopy(best)
        cand["removed"] = sorted(set(cand.get("removed", [])) | {i for i in live_steps(cand) if i > vstep})
        attempt(cand)

    # 1. ddmin over steps
    n = 2
    while used < budget:
        live = live_steps(best)
        if len(live) <= 1:
            break
        n = min(n, len(live))
        chunk = max(1, len(live) // n)
        progress = False
        for k in range(0, len(live), chunk):
            part = live[k:k + chunk]
            cand = copy.deepcopy(best)
            cand["removed"] = sorted(set(cand.get("removed", [])) | set(part))
            if attempt(cand):
                progress = True
                n = max(n - 1, 2)
                break
        if not progress:
            if chunk == 1:
                break
            n = min(n * 2, len(live))

    # 2. faults
    plan = best.get("plan")
    if plan:
        for key in ("faults", "fp", "evict_mid", "switch_at"):
            i = 0
            while i < len(best["plan"].get(key, [])) and used < budget:
                cand = copy.deepcopy(best)
                del cand["plan"][key][i]
                if not attempt(cand):
                    i += 1
        # 3. schedule: no pre-emption at all -> SEQ; else coarser quanta
        if best["plan"].get("exec") == "preempt" and used < budget:
            cand = copy.deepcopy(best)
            cand["plan"]["exec"] = "seq"
            cand["plan"].pop("grants", None)
            if not attempt(cand):
                g = best["plan"].get("grants") or []
                i = 0
                while i < len(g) and used < budget:
                    if g[i][1] != 0:
                        cand = copy.deepcopy(best)
                        cand["plan"]["grants"][i][1] = 0
                        if attempt(cand):
                            g = best["plan"]["grants"]
                    i += 1
        # 3b. no plan needed at all?
        if used < budget and not any(best["plan"].get(k) for k in ("faults", "fp", "evict_mid")) \
                and best["plan"].get("exec") == "seq":
            cand = copy.deepcopy(best)
            cand.pop("plan")
            attempt(cand)

    # 4. pool: drop recipes nothing refers to
    if used < budget:
        live = set(live_steps(best))
        need = set()
        for s in best["steps"]:
            if s["i"] in live:
                need.update(step_slots(s))
        recs = {r["slot"]: r for r in best["recipes"]}
        frontier = [s for s in need if s in recs]
        closure = set(frontier)
        while frontier:
            s = frontier.pop()
            for d in _refs_of_recipe(recs[s]):
                if d in recs and d not in closure:
                    closure.add(d)
                    frontier.append(d)
        cand = copy.deepcopy(best)
        cand["recipes"] = [r for r in cand["recipes"] if r["slot"] in closure]
        if len(cand["recipes"]) < len(best["recipes"]):
            attempt(cand)
    # 5. physically delete removed steps from the file (indices stay)
    if used < budget and best.get("removed"):
        cand = copy.deepcopy(best)
        rem = set(cand["removed"])
        cand["steps"] = [s for s in cand["steps"] if s["i"] not in rem]
        cand["compact"] = True
        attempt(cand)
    return best, best_v, used
