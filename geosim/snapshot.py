"""Structural snapshots of objects (oracle O1) and canonical answers (oracles O2/O3)."""
from __future__ import annotations

import hashlib
import re

import numpy as np

_ADDR = re.compile(r"0x[0-9a-fA-F]{6,}")


def _noaddr(text: str) -> str:
    """default object reprs contain memory addresses; they are identities, not answers"""
    return _ADDR.sub("0x?", text)


from geometer.base import Tensor, TensorDiagram

_SMALL = 262144   # bytes kept verbatim (larger arrays are hashed: the noise valve cannot look into those)


def _arr(a: np.ndarray):
    if a.dtype == object:
        return ("ndo", a.shape, _noaddr(repr(a.tolist())))
    if a.size > 20_000_000:
        return ("nd", a.dtype.str, a.shape, b"too large to hash")
    b = a.tobytes()
    if len(b) > _SMALL:
        b = hashlib.blake2b(b, digest_size=12).digest()
    return ("nd", a.dtype.str, a.shape, b)


def snap(v, depth: int = 0, _path=()):
    """Snapshot of everything the library may not modify in `v` (recursive over __dict__; reference cycles such as
    t._inverse._inverse is t are cut at the first repetition on the current path)."""
    if isinstance(v, np.ndarray):
        # ... including whether the caller may still write to its own array (a query that "protects" a view it hands
        # out by clearing the writeable flag protects the operand's array too when the view IS that array)
        return _arr(v) + (bool(v.flags.writeable),)
    if isinstance(v, Tensor):
        if id(v) in _path or depth > 12:
            return ("cycle", type(v).__name__)
        d = v.__dict__
        pth = _path + (id(v),)
        return ("T", type(v).__name__, tuple((k, snap(d[k], depth + 1, pth)) for k in sorted(d)))
    if v is None or isinstance(v, (bool, int, float, complex, str, bytes, np.generic)):
        return ("s", type(v).__name__, repr(v))
    if isinstance(v, (set, frozenset)):
        try:
            return ("set", tuple(sorted(v)))
        except TypeError:
            return ("set", tuple(sorted(map(repr, v))))
    if isinstance(v, (list, tuple)):
        if depth > 6:
            return ("o", type(v).__name__)
        return ("seq", type(v).__name__, tuple(snap(x, depth + 1, _path) for x in v))
    if isinstance(v, dict):
        if depth > 6:
            return ("o", "dict")
        items = sorted(((repr(k), snap(x, depth + 1, _path)) for k, x in v.items()), key=lambda kv: kv[0])
        return ("dict", tuple(items))
    if isinstance(v, TensorDiagram):
        return ("o", "TensorDiagram")  # mutable by contract; judged by the C05 model, not by O1
    return ("o", type(v).__name__)


def _is_none(s) -> bool:
    return s[0] == "s" and s[1] == "NoneType"


def diff(old, new, path: str = "") -> list[tuple[str, str]]:
    """List of (path, kind). kind 'fill' (absent/None -> value) is not a violation."""
    if old == new:
        return []
    if old[0] == "T" and new[0] == "T":
        out = []
        if old[1] != new[1]:
            out.append((path + ".__class__", "class"))
        od, nd = dict(old[2]), dict(new[2])
        for k in od:
            if k not in nd:
                out.append((f"{path}.{k}", "attr-removed"))
            else:
                out.extend(diff(od[k], nd[k], f"{path}.{k}"))
        for k in nd:
            if k not in od:
                out.append((f"{path}.{k}", "fill"))
        return out
    if _is_none(old):
        return [(path, "fill")]
    if old[0] == "nd" and new[0] == "nd":
        if old[1] != new[1]:
            return [(path, "array-dtype")]
        if old[2] != new[2]:
            return [(path, "array-shape")]
        if old[3] != new[3]:
            return [(path, "array-bytes")]
        return [(path, "array-flags")]
    if old[0] == "set" and new[0] == "set":
        return [(path, "indexset")]
    if old[0] == "seq" and new[0] == "seq" and len(old[2]) == len(new[2]) and old[1] == new[1]:
        out = []
        for i, (a, b) in enumerate(zip(old[2], new[2])):
            out.extend(diff(a, b, f"{path}[{i}]"))
        return out
    if old[0] == "dict" and new[0] == "dict":
        od, nd = dict(old[1]), dict(new[1])
        out = []
        for k in od:
            if k not in nd:
                out.append((f"{path}[{k}]", "entry-removed"))
            else:
                out.extend(diff(od[k], nd[k], f"{path}[{k}]"))
        for k in nd:
            if k not in od:
                out.append((f"{path}[{k}]", "fill"))
        return out
    return [(path, "attr-value")]


# ---------------------------------------------------------------------------------------------------------
# canonical answers


def canon(v, depth: int = 0, _path=()):
    """Canonical, bit-exact description of a returned value or raised exception."""
    if isinstance(v, BaseException):
        if isinstance(v, RecursionError):
            # the wording depends on which kind of frame happened to hit the limit; where that is depends on the
            # depth of the caller's own stack (client thread vs. main thread), which is not an answer of the library
            return ("exc", "RecursionError", "", None)
        dv = getattr(v, "dependent_values", None)
        return ("exc", type(v).__name__, _noaddr(str(v)[:2000]), canon(dv, depth + 1) if dv is not None else None)
    if isinstance(v, Tensor):
        if id(v) in _path or depth > 12:
            return ("cycle", type(v).__name__)
        d = v.__dict__
        pth = _path + (id(v),)
        extra = tuple((k, canon(d[k], depth + 1, pth)) for k in sorted(d) if k not in ("array",))
        return ("T", type(v).__name__, _arr(v.array), extra)
    if isinstance(v, np.ndarray):
        return _arr(v)
    if isinstance(v, (set, frozenset)):
        return ("set", tuple(sorted(v)))
    if v is None or isinstance(v, (bool, int, float, complex, str, np.generic)):
        if isinstance(v, np.generic):
            return ("g", v.dtype.str, v.tobytes())
        return ("s", type(v).__name__, _noaddr(repr(v)) if isinstance(v, str) else repr(v))
    if isinstance(v, (list, tuple)):
        if depth > 6:
            return ("o", type(v).__name__)
        return ("seq", type(v).__name__, tuple(canon(x, depth + 1, _path) for x in v))
    if isinstance(v, TensorDiagram):
        return ("o", "TensorDiagram")
    if v is NotImplemented:
        return ("s", "NotImplemented", "")
    return ("o", type(v).__name__)


def digest(c) -> str:
    return hashlib.blake2b(repr(c).encode(), digest_size=10).hexdigest()


def short(c, limit: int = 160) -> str:
    """Human readable abbreviation of a canonical answer."""
    if c is None:
        return "None"
    if c[0] == "exc":
        return f"raise {c[1]}({c[2][:80]!r})"
    if c[0] == "T":
        return f"{c[1]}<{c[2][1]}{list(c[2][2])}>#{digest(c)[:8]}"
    if c[0] == "nd":
        if len(c[3]) <= 64 and c[0] == "nd":
            try:
                return f"array{np.frombuffer(c[3], dtype=np.dtype(c[1])).reshape(c[2]).tolist()}"[:limit]
            except Exception:
                pass
        return f"array<{c[1]}{list(c[2])}>#{digest(c)[:8]}"
    if c[0] == "g":
        try:
            return repr(np.frombuffer(c[2], dtype=np.dtype(c[1]))[0])
        except Exception:
            return "generic"
    if c[0] == "s":
        return c[2][:limit]
    if c[0] == "seq":
        return "[" + ", ".join(short(x, 60) for x in c[2][:6]) + ("…]" if len(c[2]) > 6 else "]")
    return str(c)[:limit]


def _flat_arrays(c, out):
    if not isinstance(c, tuple) or not c:
        return
    if c[0] == "nd":
        out.append(c)
    elif c[0] == "g":
        out.append(("nd", c[1], (), c[2]))
    else:
        for x in c[1:]:
            if isinstance(x, tuple):
                _flat_arrays(x, out)


def _skeleton(c):
    if not isinstance(c, tuple) or not c:
        return c
    if c[0] == "nd":
        return ("nd", c[1], c[2])
    if c[0] == "g":
        return ("g", c[1])
    return tuple(_skeleton(x) if isinstance(x, tuple) else x for x in c)


def noise_only(a, b, ulps: int = 8) -> bool:
    """True iff two canonical answers have the same structure and every float array agrees within `ulps`.

    Only decidable for arrays kept verbatim (<= _SMALL bytes); larger ones are digests -> False.
    """
    if _skeleton(a) != _skeleton(b):
        return False
    fa, fb = [], []
    _flat_arrays(a, fa)
    _flat_arrays(b, fb)
    if len(fa) != len(fb):
        return False
    for x, y in zip(fa, fb):
        if x == y:
            continue
        dt = np.dtype(x[1])
        if dt.kind not in "fc":
            return False
        n = int(np.prod(x[2])) * dt.itemsize if x[2] else dt.itemsize
        if len(x[3]) != n or len(y[3]) != n:
            return False
        u = np.frombuffer(x[3], dtype=dt).view(np.float64 if dt.itemsize in (8, 16) else np.float32)
        v = np.frombuffer(y[3], dtype=dt).view(u.dtype)
        if np.any(np.isnan(u) != np.isnan(v)):
            return False
        with np.errstate(all="ignore"):
            tol = ulps * np.spacing(np.maximum(np.abs(u), np.abs(v)))
            # entries that are (nearly) zero by cancellation carry the ABSOLUTE rounding noise of the array's scale:
            # an angle of 1.7e-15 in an array of angles up to pi/2 differed by 4e-17 between two calls on the same 65
            # lines (numpy's blocked/SIMD kernels round differently for differently aligned temporaries)
            fin = np.concatenate([np.abs(u[np.isfinite(u)]), np.abs(v[np.isfinite(v)])])
            scale = float(fin.max()) if fin.size else 0.0
            ok = (np.abs(u - v) <= tol) | (np.abs(u - v) <= 64 * np.finfo(u.dtype).eps * scale) | \
                 (np.isnan(u) & np.isnan(v)) | (u == v)
        if not np.all(ok):
            return False
    return True


POINTLIKE = {"Point", "PointCollection", "Line", "LineCollection", "Plane", "PlaneCollection"}


def _nd_array(c):
    if not (isinstance(c, tuple) and c and c[0] == "nd"):
        return None
    dt = np.dtype(c[1])
    n = int(np.prod(c[2])) * dt.itemsize if c[2] else dt.itemsize
    if dt.kind not in "fc" or not isinstance(c[3], (bytes, bytearray)) or len(c[3]) != n or not c[2]:
        return None
    return np.frombuffer(c[3], dtype=dt).reshape(c[2])


def _rows_projectively_equal(x, y, tol: float = 1e-12) -> bool:
    u, v = _nd_array(x), _nd_array(y)
    if u is None or v is None or u.shape != v.shape:
        return False
    u = u.reshape(-1, u.shape[-1]).astype(complex)
    v = v.reshape(-1, v.shape[-1]).astype(complex)
    with np.errstate(all="ignore"):
        if not (np.all(np.isfinite(u)) and np.all(np.isfinite(v))):
            return False
        su = np.max(np.abs(u), axis=1, keepdims=True)
        sv = np.max(np.abs(v), axis=1, keepdims=True)
        if np.any((su == 0) != (sv == 0)):
            return False
        u = u / np.where(su == 0, 1, su)
        v = v / np.where(sv == 0, 1, sv)
        nu = np.sum(np.abs(u) ** 2, axis=1)
        nv = np.sum(np.abs(v) ** 2, axis=1)
        ip = np.abs(np.sum(np.conj(u) * v, axis=1)) ** 2
        return bool(np.all(ip >= (1 - tol) * nu * nv))


def projective_noise(a, b) -> bool:
    """True iff two canonical answers differ only in the REPRESENTATIVE of point-like results: the same points /
    hyperplanes, each row up to a non-zero (complex) factor, everything else equal up to numeric noise.

    A solver-based query (conic with conic, quadric with line) returns each complex point divided by one of its
    coordinates; for points such as (1, i, 0) two coordinates tie in magnitude, and which one wins is decided by
    rounding noise that depends on the memory alignment of numpy's temporaries -- two calls on identical state came
    back as p and -i*p (thorough soak, PREEMPT, not reproducible in another process). The operands' own state is
    guarded bit by bit by O1 regardless."""
    if a == b:
        return True
    if not (isinstance(a, tuple) and isinstance(b, tuple) and a and b and a[0] == b[0]):
        return False
    if a[0] == "T" and a[1] == b[1] and a[1] in POINTLIKE and len(a) == len(b) == 4:
        arr_ok = a[2] == b[2] or noise_only(a[2], b[2]) or _rows_projectively_equal(a[2], b[2])
        return arr_ok and (a[3] == b[3] or noise_only(a[3], b[3]))
    if a[0] == "seq" and a[1] == b[1] and len(a[2]) == len(b[2]):
        return all(projective_noise(x, y) for x, y in zip(a[2], b[2]))
    return noise_only(a, b)

