"""Operation catalogue: every public function, method, property and operator of geometer as a simulator step.

An op is (name, argument specs, callable(args, params), optional params generator). All of them are *queries*
in the sense of C12 (none is a mutator by contract); TensorDiagram builder steps live in model_diagram.py.
"""
from __future__ import annotations

import numpy as np

import geometer
from geometer import (
    Circle, Cone, Conic, Cuboid, Cylinder, Ellipse, Line, LineCollection, Plane, PlaneCollection, Point,
    PointCollection, Polygon, PolygonCollection, Quadric, QuadricCollection, Rectangle, RegularPolygon, Segment,
    SegmentCollection, Simplex, Sphere, Transformation, TransformationCollection, Triangle,
)
from geometer import operators as O
from geometer import transformation as TR
from geometer import utils as U
from geometer.base import KroneckerDelta, LeviCivitaTensor, Tensor, TensorCollection, TensorDiagram

from .world import decode_index, encode_index


class Spec:
    __slots__ = ("bases", "dim", "coll", "cls", "pred")

    def __init__(self, bases, dim=None, coll=None, cls=None, pred=None):
        self.bases = (bases,) if isinstance(bases, str) else tuple(bases)
        self.dim = dim
        self.coll = coll
        self.cls = (cls,) if isinstance(cls, str) else cls
        self.pred = pred

    def ok(self, m) -> bool:
        if m is None:
            return False
        if "any" not in self.bases and m["base"] not in self.bases:
            return False
        if self.dim is not None and m.get("dim") != self.dim:
            return False
        if self.coll is not None:
            c = m.get("pcoll", m["coll"]) if m["base"] in ("segment", "polygon", "polyhedron") else m["coll"]
            if c != self.coll:
                return False
        if self.cls is not None and m["cls"] not in self.cls:
            return False
        if self.pred is not None and not self.pred(m):
            return False
        return True


def S(bases, dim=None, coll=None, cls=None, pred=None):
    return Spec(bases, dim, coll, cls, pred)


PT, PT2, PT3 = S("point"), S("point", 2), S("point", 3)
PT_S, PT2_S, PT3_S = S("point", coll=False), S("point", 2, False), S("point", 3, False)
LN, LN2, LN3 = S("line"), S("line", 2), S("line", 3)
LN2_S, LN3_S = S("line", 2, False), S("line", 3, False)
PL, PL_S = S("plane", 3), S("plane", 3, False)
SUB = S(("line", "plane"))
SUB_S = S(("line", "plane"), coll=False)
HYP = S(("line", "plane"), pred=lambda m: m["base"] == "plane" or m["dim"] == 2)
QU, QU2, QU3 = S("quadric"), S("quadric", 2), S("quadric", 3)
CONIC = S("quadric", 2, False)
CIRCLE = S("quadric", 2, False, cls=("Circle",))
SPHERE = S("quadric", cls=("Sphere",))
TRF = S("transf")
SEG, POLY, PHED = S("segment"), S("polygon"), S("polyhedron")
POLY_S = S("polygon", coll=False)
TRI = S("polygon", cls=("Triangle",))
REG = S("polygon", cls=("RegularPolygon",))
SIMPLEX = S(("polygon", "polyhedron", "polytope"), pred=lambda m: m["cls"] in ("Triangle", "Simplex"))
POLYTOPE = S(("segment", "polygon", "polyhedron", "polytope"))
GEO = S(("point", "line", "plane", "quadric", "segment", "polygon", "polyhedron"))
ANY = S("any", pred=lambda m: m["base"] not in ("diagram", "seq"))
TEN = S("any", pred=lambda m: m["base"] not in ("diagram", "seq"))
TEN_BOUND = S("any", coll=False, pred=lambda m: m["base"] not in ("diagram", "seq") and len(m["shape"]) <= 4)
COLL = S("any", coll=True, pred=lambda m: m["base"] not in ("diagram", "seq"))
SEQ = S("seq")
SQUARE = S(("transf", "quadric", "line"), pred=lambda m: len(m["shape"]) >= 2 and m["shape"][-1] == m["shape"][-2])
DISTABLE = S(("point", "line", "plane", "segment", "polygon", "polyhedron"))

OPS: dict[str, "Op"] = {}


class Op:
    __slots__ = ("name", "args", "fn", "params", "weight", "samedim", "api")

    def __init__(self, name, args, fn, params=None, weight=1.0, samedim=True, api=()):
        self.name = name
        self.args = args
        self.fn = fn
        self.params = params
        self.weight = weight
        self.samedim = samedim
        self.api = (api,) if isinstance(api, str) else tuple(api)
        assert name not in OPS, name
        OPS[name] = self


SCALARS = [2, -1, 0.5, 3, -2.5, 1, 0, 1j, 4]


def p_scalar(rng, metas, objs):
    if rng.random() < 0.08:   # another representative of the same object: coordinates of size 1e-6 or 1e5
        return {"s": rng.choice([1e-6, 1e5, -2e-6])}
    return {"s": rng.choice(SCALARS[:7])}


def p_scalar_nz(rng, metas, objs):
    if rng.random() < 0.05:
        return {"s": 0}   # x / 0: an object with inf / nan coordinates, under numpy's default only a warning
    return {"s": rng.choice([2, -1, 0.5, 3, -2.5, 4])}


def p_pow(rng, metas, objs):
    return {"k": rng.choice([-3, -2, -1, 0, 1, 2, 3, 4])}


def p_tpow(rng, metas, objs):
    r = max(len(metas[0]["shape"]), 1)
    return {"k": rng.choice([1, 2, 3] if r <= 2 else [1, 2])}


def p_angle(rng, metas, objs):
    if rng.random() < 0.04:
        return {"angle": rng.choice(EXTREME)}
    return {"angle": rng.choice([0.0, 0.5, -1.25, 3.141592653589793, 1.5707963267948966, 2.0])}


EXTREME = [float("inf"), 1e154, 1e200, 1e-200, float("nan"), -0.0, 1e-9]


def p_radius(rng, metas, objs):
    if rng.random() < 0.06:   # what a caller's own arithmetic may hand over: overflowed, underflowed, undefined
        return {"r": rng.choice(EXTREME)}
    return {"r": rng.choice([1, 2, 0.5, 3, 1, 2, 0, -1])}


def p_index(rng, metas, objs):
    shape = metas[0]["shape"]
    idx = []
    n_axes = rng.randint(1, len(shape)) if shape else 0
    for ax in range(n_axes):
        n = shape[ax]
        c = rng.random()
        if n == 0:
            idx.append(slice(None))
        elif c < 0.35:
            idx.append(rng.randrange(-n, n))
        elif c < 0.6:
            a = rng.randrange(0, n)
            idx.append(slice(a, rng.randrange(a, n) + 1, rng.choice([None, 1, 2])))
        elif c < 0.7:
            idx.append(slice(None))
        elif c < 0.8:
            idx.append([rng.randrange(0, n) for _ in range(rng.randint(1, 3))])
        elif c < 0.9:
            m_ = rng.random()   # `pts[line.contains(pts)]`: often every element qualifies, sometimes none
            idx.append([True] * n if m_ < 0.25 else [False] * n if m_ < 0.33 else [rng.random() < 0.6 for _ in range(n)])
        elif c < 0.95:
            idx.append(None)
        else:
            idx.append(Ellipsis)
            break
    if len(shape) >= 3 and rng.random() < 0.08:  # non-adjacent advanced indices
        idx = [[rng.randrange(shape[0]) for _ in range(2)], slice(None), [rng.randrange(shape[2]) for _ in range(2)]]
    if shape and shape[0] and rng.random() < 0.03:
        return {"idx": {"f": [float(rng.randrange(shape[0]))]}}
    if shape and rng.random() < 0.06:
        # numpy bool scalars are legal indices (0-d masks) and compare equal to the integers 0 and 1
        b = np.bool_(rng.random() < 0.5)
        return {"idx": encode_index(b if rng.random() < 0.6 else (b, Ellipsis))}
    if shape and shape[0] >= 2 and rng.random() < 0.06:
        return {"idx": encode_index(rng.choice([0, 1]))}
    if sum(1 for i in idx if i is Ellipsis) > 1:
        idx = [i for i in idx if i is not Ellipsis]
    t = tuple(idx) if len(idx) != 1 or rng.random() < 0.3 else idx[0]
    return {"idx": encode_index(t)}


def p_perm(rng, metas, objs):
    m = metas[0]
    nfree = len(m["fshape"])
    r = len(m["shape"])
    if rng.random() < 0.3 or r - nfree < 2:
        return {"perm": None}
    if rng.random() < 0.3:  # cycle notation: a shorter list
        return {"perm": rng.sample(range(nfree, r), 2)}
    tail = list(range(nfree, r))
    rng.shuffle(tail)
    return {"perm": list(range(nfree)) + tail}


def p_expand(rng, metas, objs):
    nfree = len(metas[0]["fshape"])
    return {"axis": rng.choice([0, nfree, -len(metas[0]["shape"]) - 1 + 0, rng.randint(0, max(nfree, 0))])}


def p_ident(rng, metas, objs):
    return {"dim": rng.choice([1, 2, 3]), "shape": rng.choice([None, None, [2], [3], [2, 2], [64], [65]])}


def p_coords(rng, metas, objs):
    n = rng.choice([2, 3])
    return {"c": [rng.randint(-3, 3) for _ in range(n)]}


def p_factors(rng, metas, objs):
    n = rng.choice([2, 3])
    return {"f": [rng.choice([1, 2, -1, 0.5, 3]) for _ in range(n)]}


def p_affine(rng, metas, objs):
    n = rng.choice([2, 3])
    m = [[rng.randint(-2, 2) for _ in range(n)] for _ in range(n)]
    return {"m": m, "o": [rng.randint(-2, 2) for _ in range(n)]}


def p_regular(rng, metas, objs):
    return {"r": rng.choice([1, 2, 0.5]), "n": rng.choice([3, 4, 5, 6])}


def p_roots(rng, metas, objs):
    n = rng.choice([2, 3, 4, 5])
    return {"p": [rng.randint(-3, 3) or 1] + [rng.randint(-3, 3) for _ in range(n - 1)]}


def p_cr(rng, metas, objs):
    return {"cr": rng.choice([2, -1, 0.5, 3])}


def p_eps(rng, metas, objs):
    return {"n": rng.choice([1, 2, 3, 4, 5]), "cov": rng.random() < 0.5}


def p_delta(rng, metas, objs):
    n = rng.choice([1, 2, 3, 4])
    return {"n": n, "p": rng.choice([q for q in (1, 2, 3) if q <= n + 1 and n ** (2 * q) <= 5000])}


def p_tol(rng, metas, objs):
    return {"tol": rng.choice([1e-8, 1e-8, 1e-3, 0.5])}


# -------------------------------------------------------------------------------------------------------------------
# module functions
Op("join_pp", [PT, PT], lambda a, p: geometer.join(a[0], a[1]), weight=3, api="join")
Op("join_ppp", [PT3, PT3, PT3], lambda a, p: geometer.join(a[0], a[1], a[2]), weight=2, api="join")
Op("join_pl", [PT3, LN3], lambda a, p: geometer.join(a[0], a[1]), api="join")
Op("join_lp", [LN3, PT3], lambda a, p: geometer.join(a[0], a[1]), api="join")
Op("join_ll", [LN3, LN3], lambda a, p: geometer.join(a[0], a[1]), api="join")
Op("meet_ll", [LN, LN], lambda a, p: geometer.meet(a[0], a[1]), weight=3, api="meet")
Op("meet_ee", [PL, PL], lambda a, p: geometer.meet(a[0], a[1]), weight=2, api="meet")
Op("meet_eee", [PL, PL, PL], lambda a, p: geometer.meet(a[0], a[1], a[2]), api="meet")
Op("meet_el", [PL, LN3], lambda a, p: geometer.meet(a[0], a[1]), weight=2, api="meet")
Op("meet_le", [LN3, PL], lambda a, p: geometer.meet(a[0], a[1]), api="meet")
Op("crossratio_pts", [PT, PT, PT, PT], lambda a, p: O.crossratio(*a), api="crossratio")
Op("crossratio_from", [PT2, PT2, PT2, PT2, PT2], lambda a, p: O.crossratio(a[0], a[1], a[2], a[3], a[4]),
   api="crossratio")
Op("crossratio_lines", [LN2, LN2, LN2, LN2], lambda a, p: O.crossratio(*a), api="crossratio")
Op("crossratio_planes", [PL, PL, PL, PL], lambda a, p: O.crossratio(*a), api="crossratio")
Op("harmonic_set", [PT, PT, PT], lambda a, p: O.harmonic_set(*a), api="harmonic_set")
Op("angle_ppp", [PT, PT, PT], lambda a, p: O.angle(*a), weight=2, api="angle")
Op("angle_pp", [PT, PT], lambda a, p: O.angle(*a), api="angle")
Op("angle_ll", [LN, LN], lambda a, p: O.angle(*a), weight=2, api="angle")
Op("angle_ee", [PL, PL], lambda a, p: O.angle(*a), api="angle")
Op("angle_bisectors", [LN, LN], lambda a, p: O.angle_bisectors(*a), api="angle_bisectors")
Op("dist", [DISTABLE, DISTABLE], lambda a, p: O.dist(a[0], a[1]), weight=4, api="dist")
Op("is_cocircular", [PT, PT, PT, PT], lambda a, p: O.is_cocircular(*a), api="is_cocircular")
Op("is_perpendicular_ll", [LN, LN], lambda a, p: O.is_perpendicular(*a), api="is_perpendicular")
Op("is_perpendicular_ee", [PL, PL], lambda a, p: O.is_perpendicular(*a), api="is_perpendicular")
Op("is_collinear3", [PT2, PT2, PT2], lambda a, p: O.is_collinear(*a), api=("is_collinear", "is_coplanar"))
Op("is_collinear4", [PT2, PT2, PT2, PT2], lambda a, p: O.is_collinear(*a), api=("is_collinear", "is_coplanar"))
Op("is_coplanar4", [PT3, PT3, PT3, PT3], lambda a, p: O.is_coplanar(*a), api="is_coplanar")
Op("is_coplanar5", [PT3, PT3, PT3, PT3, PT3], lambda a, p: O.is_coplanar(*a, tol=p["tol"]), p_tol, api="is_coplanar")
Op("is_concurrent3", [LN2, LN2, LN2], lambda a, p: O.is_concurrent(*a), api="is_concurrent")
Op("is_concurrent4", [LN2, LN2, LN2, LN2], lambda a, p: O.is_concurrent(*a), api="is_concurrent")
Op("is_coplanar_planes", [PL, PL, PL, PL, PL], lambda a, p: O.is_coplanar(*a), api="is_coplanar")

# transformation constructors
Op("translation_pt", [PT_S], lambda a, p: TR.translation(a[0]), weight=2, api="translation")
Op("translation_c", [], lambda a, p: TR.translation(*p["c"]), p_coords, api="translation")
Op("rotation2", [], lambda a, p: TR.rotation(p["angle"]), p_angle, api="rotation")
Op("rotation3", [PT3_S], lambda a, p: TR.rotation(p["angle"], axis=a[0]), p_angle, weight=2, api="rotation")
Op("scaling", [], lambda a, p: TR.scaling(*p["f"]), p_factors, api="scaling")
Op("reflection", [S(("line", "plane"), coll=False, pred=lambda m: m["base"] == "plane" or m["dim"] == 2)],
   lambda a, p: TR.reflection(a[0]), weight=2, api="reflection")
Op("affine_transform", [], lambda a, p: TR.affine_transform(p["m"], p["o"]), p_affine, api="affine_transform")
Op("identity", [], lambda a, p: TR.identity(p["dim"], tuple(p["shape"]) if p["shape"] is not None else None), p_ident,
   api="identity")
Op("from_points2", [PT2_S] * 8, lambda a, p: Transformation.from_points(*zip(a[:4], a[4:])),
   api="Transformation.from_points")
Op("from_points3", [PT3_S] * 10, lambda a, p: Transformation.from_points(*zip(a[:5], a[5:])),
   api="Transformation.from_points")
Op("from_points_and_conics", [PT2_S] * 6 + [CONIC, CONIC],
   lambda a, p: Transformation.from_points_and_conics(a[:3], a[3:6], a[6], a[7]),
   api="Transformation.from_points_and_conics")

Op("from_points_and_conics_lists", [SEQ, SEQ, CONIC, CONIC],
   lambda a, p: Transformation.from_points_and_conics(a[0], a[1], a[2], a[3]),
   api="Transformation.from_points_and_conics")
Op("polygon_from_list", [SEQ], lambda a, p: Polygon(*a[0]), api="Polygon")
Op("pointcollection_from_list", [SEQ], lambda a, p: PointCollection(a[0]), api="PointCollection")

# points
Op("normalized_array", [S(("point", "segment", "polygon", "polyhedron", "polytope"))],
   lambda a, p: a[0].normalized_array, weight=2, api="PointLikeTensor.normalized_array")
Op("pt_isinf", [PT], lambda a, p: a[0].isinf, api="PointTensor.isinf")
Op("pt_isreal", [PT], lambda a, p: a[0].isreal, api="PointTensor.isreal")
Op("pt_add", [PT, PT], lambda a, p: a[0] + a[1], weight=2, api="PointLikeTensor.__add__")
Op("pt_sub", [PT, PT], lambda a, p: a[0] - a[1], weight=2, api="PointLikeTensor.__sub__")
Op("pt_mul_s", [PT], lambda a, p: a[0] * p["s"], p_scalar, api="PointLikeTensor.__mul__")
Op("pt_rmul_s", [PT], lambda a, p: p["s"] * a[0], p_scalar, api="Tensor.__rmul__")
Op("pt_div_s", [PT], lambda a, p: a[0] / p["s"], p_scalar_nz, api="PointLikeTensor.__truediv__")
Op("pt_neg", [PT], lambda a, p: -a[0], api="Tensor.__neg__")
Op("pt_join_m", [PT, S(("point", "line"))], lambda a, p: a[0].join(a[1]), api="PointTensor.join")

# subspaces
Op("sub_contains", [SUB, S(("point", "line"))], lambda a, p: a[0].contains(a[1]), weight=3,
   api="SubspaceTensor.contains")
Op("sub_contains_tol", [SUB, PT], lambda a, p: a[0].contains(a[1], tol=p["tol"]), p_tol,
   api="SubspaceTensor.contains")
Op("sub_meet_m", [SUB, SUB], lambda a, p: a[0].meet(a[1]), weight=2, api=("SubspaceTensor.meet", "LineTensor.meet"))
Op("sub_join_m", [SUB, S(("point", "line"))], lambda a, p: a[0].join(a[1]), api="SubspaceTensor.join")
Op("is_parallel", [SUB, SUB], lambda a, p: a[0].is_parallel(a[1]), weight=2, api="SubspaceTensor.is_parallel")
Op("parallel", [SUB, PT], lambda a, p: a[0].parallel(a[1]), weight=2, api="SubspaceTensor.parallel")
Op("line_perpendicular", [LN, PT], lambda a, p: a[0].perpendicular(a[1]), weight=3, api="LineTensor.perpendicular")
Op("line_perpendicular_plane", [LN3, PT3, PL], lambda a, p: a[0].perpendicular(a[1], plane=a[2]),
   api="LineTensor.perpendicular")
Op("plane_perpendicular", [PL, S(("point", "line"), 3)], lambda a, p: a[0].perpendicular(a[1]), weight=2,
   api="PlaneTensor.perpendicular")
Op("project", [SUB, PT], lambda a, p: a[0].project(a[1]), weight=3, api="SubspaceTensor.project")
Op("mirror", [SUB, PT], lambda a, p: a[0].mirror(a[1]), weight=3, api=("LineTensor.mirror", "PlaneTensor.mirror"))
Op("basis_matrix", [SUB], lambda a, p: a[0].basis_matrix, weight=2,
   api=("SubspaceTensor.basis_matrix", "LineTensor.basis_matrix", "PlaneTensor.basis_matrix"))
Op("general_point", [SUB], lambda a, p: a[0].general_point, weight=2, api="SubspaceTensor.general_point")
Op("base_point", [LN], lambda a, p: a[0].base_point, weight=2, api="LineTensor.base_point")
Op("direction", [LN], lambda a, p: a[0].direction, weight=2, api="LineTensor.direction")
Op("covariant_tensor", [LN], lambda a, p: a[0].covariant_tensor, api="LineTensor.covariant_tensor")
Op("contravariant_tensor", [LN], lambda a, p: a[0].contravariant_tensor, api="LineTensor.contravariant_tensor")
Op("line_is_coplanar", [LN, LN], lambda a, p: a[0].is_coplanar(a[1]), api="LineTensor.is_coplanar")
Op("plane_isinf", [S("plane")], lambda a, p: a[0].isinf, api="PlaneTensor.isinf")
Op("sub_add_pt", [SUB, PT_S], lambda a, p: a[0] + a[1], weight=2, api="SubspaceTensor.__add__")
Op("sub_sub_pt", [SUB, PT_S], lambda a, p: a[0] - a[1], api="SubspaceTensor.__sub__")
Op("line_ctor", [PT, PT], lambda a, p: (LineCollection if a[0].free_indices or a[1].free_indices else Line)(a[0], a[1]),
   weight=2, api=("Line", "LineCollection"))
Op("plane_ctor", [PT3, PT3, PT3],
   lambda a, p: (PlaneCollection if any(x.free_indices for x in a) else Plane)(*a), api=("Plane", "PlaneCollection"))
Op("plane_ctor_pl", [PT3_S, LN3_S], lambda a, p: Plane(a[0], a[1]), api="Plane")

# quadrics
Op("q_contains", [QU, S(("point", "line", "plane"))], lambda a, p: a[0].contains(a[1]), weight=3,
   api="QuadricTensor.contains")
Op("q_tangent", [QU, PT], lambda a, p: a[0].tangent(a[1]), weight=2, api=("QuadricTensor.tangent", "Conic.tangent"))
Op("q_tangent_kw", [CONIC, PT2_S], lambda a, p: a[0].tangent(at=a[1]), api="Conic.tangent")
Op("q_is_tangent", [QU, HYP], lambda a, p: a[0].is_tangent(a[1]), weight=2, api="QuadricTensor.is_tangent")
Op("q_is_degenerate", [QU], lambda a, p: a[0].is_degenerate, weight=2, api="QuadricTensor.is_degenerate")
Op("q_components", [QU], lambda a, p: a[0].components, weight=2, api="QuadricTensor.components")
Op("q_intersect", [QU, LN], lambda a, p: a[0].intersect(a[1]), weight=4,
   api=("QuadricTensor.intersect", "Conic.intersect"))
Op("q_dual", [QU], lambda a, p: a[0].dual, weight=2, api="QuadricTensor.dual")
Op("q_add_pt", [QU, PT_S], lambda a, p: a[0] + a[1], api="QuadricTensor.__add__")
Op("q_sub_pt", [QU, PT_S], lambda a, p: a[0] - a[1], api="QuadricTensor.__sub__")
Op("conic_intersect_conic", [CONIC, CONIC], lambda a, p: a[0].intersect(a[1]), weight=2, api="Conic.intersect")
Op("conic_polar", [CONIC, PT2_S], lambda a, p: a[0].polar(a[1]), api="Conic.polar")
Op("conic_foci", [CONIC], lambda a, p: a[0].foci, weight=2, api="Conic.foci")
Op("circle_center", [CIRCLE], lambda a, p: a[0].center, api="Circle.center")
Op("circle_radius", [CIRCLE], lambda a, p: a[0].radius, api="Circle.radius")
Op("circle_lie", [CIRCLE], lambda a, p: a[0].lie_coordinates, api="Circle.lie_coordinates")
Op("circle_area", [CIRCLE], lambda a, p: a[0].area, api="Circle.area")
Op("circle_intersection_angle", [CIRCLE, CIRCLE], lambda a, p: a[0].intersection_angle(a[1]),
   api="Circle.intersection_angle")
Op("sphere_center", [SPHERE], lambda a, p: a[0].center, api="Sphere.center")
Op("sphere_radius", [SPHERE], lambda a, p: a[0].radius, api="Sphere.radius")
Op("sphere_volume", [SPHERE], lambda a, p: a[0].volume, api="Sphere.volume")
Op("sphere_area", [SPHERE], lambda a, p: a[0].area, api="Sphere.area")
Op("conic_from_points", [PT2_S] * 5, lambda a, p: Conic.from_points(*a), weight=2, api="Conic.from_points")
Op("conic_from_lines", [LN2_S, LN2_S], lambda a, p: Conic.from_lines(*a), weight=2, api="Conic.from_lines")
Op("conic_from_tangent", [LN2_S] + [PT2_S] * 4, lambda a, p: Conic.from_tangent(*a), api="Conic.from_tangent")
Op("conic_from_foci", [PT2_S] * 3, lambda a, p: Conic.from_foci(*a), api="Conic.from_foci")
Op("conic_from_crossratio", [PT2_S] * 4, lambda a, p: Conic.from_crossratio(p["cr"], *a), p_cr,
   api="Conic.from_crossratio")
Op("quadric_from_planes", [HYP, HYP],
   lambda a, p: (QuadricCollection if a[0].free_indices or a[1].free_indices else Quadric).from_planes(a[0], a[1]),
   weight=2, api="QuadricTensor.from_planes")
Op("circle_ctor", [PT2_S], lambda a, p: Circle(a[0], p["r"]), p_radius, api="Circle")
Op("circle_default", [], lambda a, p: Circle(radius=p["r"]), p_radius, api="Circle")
Op("ellipse_ctor", [PT2_S], lambda a, p: Ellipse(a[0], p["r"], 2 * p["r"]), p_radius, api="Ellipse")
Op("ellipse_default", [], lambda a, p: Ellipse(hradius=p["r"]), p_radius, api="Ellipse")
Op("sphere_ctor", [PT_S], lambda a, p: Sphere(a[0], p["r"]), p_radius, api="Sphere")
Op("sphere_default", [], lambda a, p: Sphere(radius=p["r"]), p_radius, api="Sphere")
Op("cone_ctor", [PT3_S, PT3_S], lambda a, p: Cone(a[0], a[1], p["r"]), p_radius, api="Cone")
Op("cone_default", [], lambda a, p: Cone(radius=p["r"]), p_radius, api="Cone")
Op("cylinder_ctor", [PT3_S, PT3_S], lambda a, p: Cylinder(a[0], a[1], p["r"]), p_radius, api="Cylinder")
Op("cylinder_default", [], lambda a, p: Cylinder(radius=p["r"]), p_radius, api="Cylinder")

# transformations
Op("apply", [TRF, GEO], lambda a, p: a[0].apply(a[1]), weight=5,
   api=("TransformationTensor.apply", "Tensor.__apply__", "SegmentTensor.__apply__", "PolygonTensor.__apply__"))
Op("t_mul", [TRF, S(("point", "line", "plane", "quadric", "segment", "polygon", "polyhedron", "transf"))],
   lambda a, p: a[0] * a[1], weight=5, api=("TransformationTensor.__mul__", "TransformationTensor.__apply__"))
Op("t_pow", [TRF], lambda a, p: a[0] ** p["k"], p_pow, weight=3, api="TransformationTensor.__pow__")
Op("t_inverse", [TRF], lambda a, p: a[0].inverse(), weight=3, api="TransformationTensor.inverse")

# polytopes
Op("vertices", [POLYTOPE], lambda a, p: a[0].vertices, weight=2,
   api=("PolytopeTensor.vertices", "SegmentTensor.vertices", "PolygonTensor.vertices"))
Op("facets", [POLYTOPE], lambda a, p: a[0].facets, weight=2,
   api=("PolytopeTensor.facets", "SegmentTensor.facets", "PolygonTensor.facets"))
Op("edges", [S(("polygon", "polyhedron"))], lambda a, p: a[0].edges, weight=2,
   api=("PolygonTensor.edges", "Polyhedron.edges"))
Op("faces", [PHED], lambda a, p: a[0].faces, weight=2, api="Polyhedron.faces")
Op("polytope_eq", [POLYTOPE, POLYTOPE], lambda a, p: a[0] == a[1], weight=2, api="PolytopeTensor.__eq__")
Op("polytope_add", [POLYTOPE, PT_S], lambda a, p: a[0] + a[1], weight=2, api="PolytopeTensor.__add__")
Op("polytope_sub", [POLYTOPE, PT_S], lambda a, p: a[0] - a[1], api="PolytopeTensor.__sub__")
Op("seg_contains", [SEG, PT], lambda a, p: a[0].contains(a[1]), weight=3, api="SegmentTensor.contains")
Op("seg_contains_tol", [SEG, PT], lambda a, p: a[0].contains(a[1], tol=p["tol"]), p_tol, api="SegmentTensor.contains")
Op("poly_contains", [POLY, PT], lambda a, p: a[0].contains(a[1]), weight=5,
   api=("PolygonTensor.contains", "Triangle.contains"))
Op("seg_intersect", [SEG, S(("line", "plane", "segment", "polygon", "polyhedron"))],
   lambda a, p: a[0].intersect(a[1]), weight=3, api="SegmentTensor.intersect")
Op("poly_intersect", [POLY, S(("line", "segment"))], lambda a, p: a[0].intersect(a[1]), weight=4,
   api="PolygonTensor.intersect")
Op("phed_intersect", [PHED, S(("line", "segment"))], lambda a, p: a[0].intersect(a[1]), weight=3,
   api="Polyhedron.intersect")
Op("midpoint", [SEG], lambda a, p: a[0].midpoint, weight=2, api="SegmentTensor.midpoint")
Op("length", [SEG], lambda a, p: a[0].length, weight=2, api="SegmentTensor.length")
Op("area", [S(("polygon", "polyhedron"))], lambda a, p: a[0].area, weight=6,
   api=("PolygonTensor.area", "Polyhedron.area", "PolygonTensor._normalized_projection"))
Op("angles", [POLY], lambda a, p: a[0].angles, weight=2, api="PolygonTensor.angles")
Op("centroid", [POLY_S], lambda a, p: a[0].centroid, weight=3, api="Polygon.centroid")
Op("circumcenter", [TRI], lambda a, p: a[0].circumcenter, weight=2, api="Triangle.circumcenter")
Op("volume", [SIMPLEX], lambda a, p: a[0].volume, weight=2, api="Simplex.volume")
Op("reg_radius", [REG], lambda a, p: a[0].radius, api="RegularPolygon.radius")
Op("reg_center", [REG], lambda a, p: a[0].center, api="RegularPolygon.center")
Op("reg_inradius", [REG], lambda a, p: a[0].inradius, api="RegularPolygon.inradius")
Op("segment_ctor", [PT, PT], lambda a, p: (SegmentCollection if a[0].free_indices or a[1].free_indices else Segment)(
    a[0], a[1]), weight=2, api=("Segment", "SegmentCollection"))
Op("polygon_ctor4", [PT_S] * 4, lambda a, p: Polygon(*a), api="Polygon")
Op("polygon_ctor5", [PT_S] * 5, lambda a, p: Polygon(*a), api="Polygon")
Op("polygon_from_segments", [S("segment", coll=False)] * 3, lambda a, p: Polygon(*a), api="Polygon")
Op("polygoncoll_ctor", [PT, PT, PT, PT], lambda a, p: PolygonCollection(*a), api="PolygonCollection")
Op("triangle_ctor", [PT_S] * 3, lambda a, p: Triangle(*a), weight=2, api="Triangle")
Op("rectangle_ctor", [PT_S] * 4, lambda a, p: Rectangle(*a), api="Rectangle")
Op("cuboid_ctor", [PT3_S] * 4, lambda a, p: Cuboid(*a), api="Cuboid")
Op("simplex_ctor3", [PT_S] * 3, lambda a, p: Simplex(*a), api="Simplex")
Op("simplex_ctor4", [PT3_S] * 4, lambda a, p: Simplex(*a), api="Simplex")
Op("simplex_ctor2", [PT_S] * 2, lambda a, p: Simplex(*a), api="Simplex")
Op("polyhedron_ctor", [S("polygon", 3, False)] * 4, lambda a, p: __import__("geometer.shapes", fromlist=["x"]).Polyhedron(*a),
   api="Polyhedron")
Op("polyhedron_from_faces", [PHED], lambda a, p: __import__("geometer.shapes", fromlist=["x"]).Polyhedron(*list(a[0].faces)[:4]),
   api="Polyhedron")
Op("quadric_normalize", [QU], lambda a, p: type(a[0])(a[0].array, is_dual=a[0].is_dual, normalize_matrix=True)
   if type(a[0]).__name__ in ("Quadric", "Conic", "QuadricCollection") else Quadric(a[0].array, normalize_matrix=True),
   api="QuadricTensor")
Op("quadric_from_tensor", [QU], lambda a, p: (QuadricCollection if a[0].free_indices else Quadric)(a[0], normalize_matrix=True),
   api="QuadricTensor")
Op("transfcoll_of", [S("transf", coll=False)] * 2, lambda a, p: TransformationCollection([a[0], a[1]]),
   api="TransformationCollection")
Op("segmentcoll_of_arrays", [PT, PT], lambda a, p: SegmentCollection(np.stack(np.broadcast_arrays(a[0].array, a[1].array), axis=-2), copy=False),
   api="SegmentCollection")
Op("polygon_nocopy", [S("polygon")], lambda a, p: type(a[0])(a[0].array, copy=False)
   if type(a[0]).__name__ in ("Polygon", "PolygonCollection", "Triangle", "Rectangle") else Polygon(a[0].array, copy=False),
   api="Polygon")
Op("regular_ctor2", [PT2_S], lambda a, p: RegularPolygon(a[0], p["r"], p["n"]), p_regular, api="RegularPolygon")
Op("regular_ctor3", [PT3_S, PT3_S], lambda a, p: RegularPolygon(a[0], p["r"], p["n"], axis=a[1]), p_regular,
   api="RegularPolygon")
Op("seg_expand_dims", [S("segment", coll=True)], lambda a, p: a[0].expand_dims(p["axis"]), p_expand,
   api="SegmentCollection.expand_dims")

# generic tensor behaviour (all kinds)
Op("tensor_product", [TEN_BOUND, TEN_BOUND], lambda a, p: a[0].tensor_product(a[1]), samedim=False,
   api="Tensor.tensor_product")
Op("transpose", [ANY], lambda a, p: a[0].transpose(p["perm"]), p_perm, api="Tensor.transpose")
Op("T", [ANY], lambda a, p: a[0].T, api="Tensor.T")
Op("copy", [ANY], lambda a, p: a[0].copy(), weight=2, api=("Tensor.copy", "Tensor.__copy__"))
Op("copy_copy", [ANY], lambda a, p: __import__("copy").copy(a[0]), api="Tensor.__copy__")
Op("is_zero", [ANY], lambda a, p: a[0].is_zero(), weight=2, api="Tensor.is_zero")
Op("repr", [ANY], lambda a, p: repr(a[0]), weight=3,
   api=("Tensor.__repr__", "PointTensor.__repr__", "PolytopeTensor.__repr__"))
Op("getitem", [ANY], lambda a, p: a[0][decode_index(p["idx"])], p_index, weight=6,
   api=("Tensor.__getitem__", "TensorCollection.__getitem__", "PointTensor.__getitem__", "LineTensor.__getitem__",
        "PlaneTensor.__getitem__", "PolytopeTensor.__getitem__", "SegmentTensor.__getitem__",
        "TransformationTensor.__getitem__", "Tensor._get_index_mapping"))
Op("mul_tt", [ANY, ANY], lambda a, p: a[0] * a[1], weight=3, samedim=False, api=("Tensor.__mul__", "Tensor.__rmul__"))
Op("mul_ts", [ANY], lambda a, p: a[0] * p["s"], p_scalar, api="Tensor.__mul__")
Op("rmul_ts", [ANY], lambda a, p: p["s"] * a[0], p_scalar, api="Tensor.__rmul__")
Op("rmul_arr", [ANY], lambda a, p: np.asarray(a[0].array).tolist() * a[0] if a[0].ndim <= 2 else None, samedim=False,
   api="Tensor.__rmul__")
Op("pow_t", [S("any", coll=False, pred=lambda m: m["base"] not in ("diagram", "transf", "seq") and len(m["shape"]) <= 2)],
   lambda a, p: a[0] ** p["k"], p_tpow, api="Tensor.__pow__")
Op("div_ts", [ANY], lambda a, p: a[0] / p["s"], p_scalar_nz, api="Tensor.__truediv__")
Op("add_tt", [ANY, ANY], lambda a, p: a[0] + a[1], weight=2, api=("Tensor.__add__", "Tensor.__radd__"))
Op("sub_tt", [ANY, ANY], lambda a, p: a[0] - a[1], weight=2, api=("Tensor.__sub__", "Tensor.__rsub__"))
Op("radd_s", [ANY], lambda a, p: p["s"] + a[0], p_scalar, api="Tensor.__radd__")
Op("rsub_s", [ANY], lambda a, p: p["s"] - a[0], p_scalar, api="Tensor.__rsub__")
Op("neg", [ANY], lambda a, p: -a[0], api="Tensor.__neg__")
Op("eq", [ANY, ANY], lambda a, p: a[0] == a[1], weight=4, samedim=False,
   api=("Tensor.__eq__", "ProjectiveTensor.__eq__"))
Op("eq_s", [ANY], lambda a, p: a[0] == p["s"], p_scalar, api=("Tensor.__eq__", "ProjectiveTensor.__eq__"))
Op("eq_list", [ANY], lambda a, p: a[0] == a[0].array.tolist(), api="ProjectiveTensor.__eq__")
Op("asarray", [ANY], lambda a, p: np.asarray(a[0]), api="Tensor.__array__")
Op("asarray_c", [ANY], lambda a, p: np.asarray(a[0], dtype=complex), api="Tensor.__array__")
Op("ufunc_add", [ANY], lambda a, p: np.add(a[0], p["s"]), p_scalar, api="Tensor.__array_ufunc__")
Op("ufunc_rmul", [ANY], lambda a, p: np.multiply(p["s"], a[0]), p_scalar, api="Tensor.__array_ufunc__")
Op("ufunc_neg", [ANY], lambda a, p: np.negative(a[0]), api="Tensor.__array_ufunc__")
Op("ufunc_sub_tt", [ANY, ANY], lambda a, p: np.subtract(a[0], a[1]), api="Tensor.__array_ufunc__")
Op("ufunc_eq", [ANY, ANY], lambda a, p: np.equal(a[0], a[1]), samedim=False, api="Tensor.__array_ufunc__")
Op("ufunc_sqrt", [ANY], lambda a, p: np.sqrt(a[0]), api="Tensor.__array_ufunc__")
Op("np_sum", [ANY], lambda a, p: np.sum(a[0]), api="Tensor.__array_function__")
Op("props", [ANY], lambda a, p: (a[0].shape, str(a[0].dtype), a[0].rank, a[0].free_indices, a[0].tensor_shape,
                                 getattr(a[0], "dim", None)), weight=2,
   api=("Tensor.shape", "Tensor.dtype", "Tensor.rank", "Tensor.free_indices", "Tensor.tensor_shape",
        "ProjectiveTensor.dim"))
Op("size_len", [COLL], lambda a, p: (a[0].size, len(a[0])), api=("TensorCollection.size", "TensorCollection.__len__"))
Op("iter", [COLL], lambda a, p: list(a[0])[:4], weight=2, api="TensorCollection.__iter__")
Op("expand_dims", [COLL], lambda a, p: a[0].expand_dims(p["axis"]), p_expand, api="TensorCollection.expand_dims")
Op("from_tensor", [ANY], lambda a, p: _coll_class(a[0]).from_tensor(a[0]), api="TensorCollection.from_tensor")
Op("from_array", [ANY], lambda a, p: _coll_class(a[0]).from_array(a[0].array), api="TensorCollection.from_array")
Op("reconstruct", [ANY], lambda a, p: type(a[0])(a[0]), api=("Tensor",))
Op("reconstruct_nocopy", [ANY], lambda a, p: type(a[0])(a[0], copy=False), api=("Tensor",))
Op("collection_of", [S(("point", "line", "plane"), coll=False)] * 2,
   lambda a, p: _coll_class(a[0])([a[0], a[1]]), api=("PointCollection", "LineCollection", "PlaneCollection"))
Op("pointcoll_homogenize", [PT], lambda a, p: PointCollection(a[0].array[..., :-1], homogenize=True),
   api="PointCollection")
Op("eps", [], lambda a, p: LeviCivitaTensor(p["n"], p["cov"]), p_eps, weight=2, api="LeviCivitaTensor")
Op("delta", [], lambda a, p: KroneckerDelta(p["n"], p["p"]), p_delta, weight=2, api="KroneckerDelta")
Op("diagram_eval", [ANY, ANY], lambda a, p: TensorDiagram((a[0], a[1])).calculate(), samedim=False,
   api=("TensorDiagram", "TensorDiagram.add_edge", "TensorDiagram.add_node", "TensorDiagram.calculate"))
Op("diagram_product", [TEN_BOUND, TEN_BOUND], lambda a, p: _edgeless(a), samedim=False,
   api=("TensorDiagram.add_node", "TensorDiagram.calculate", "TensorDiagram.copy"))

Op("infty_hyperplane", [], lambda a, p: __import__("geometer.point", fromlist=["x"]).infty_hyperplane(p["dim"]),
   lambda rng, m, o: {"dim": rng.choice([2, 3])}, api="infty_hyperplane")
Op("diagram_copy_copy", [TEN_BOUND, TEN_BOUND],
   lambda a, p: __import__("copy").copy(TensorDiagram((a[0], a[1]))).calculate(), samedim=False,
   api=("TensorDiagram.__copy__", "TensorDiagram.copy"))
Op("replace_ellipsis", [ANY], lambda a, p: repr(__import__("geometer.utils.indexing", fromlist=["x"]).replace_ellipsis(
    a[0].rank, (Ellipsis, 0))), api="utils.replace_ellipsis")

DIAG = S("diagram")
Op("diagram_calculate", [DIAG], lambda a, p: a[0].calculate(), weight=3, api="TensorDiagram.calculate")
Op("diagram_copy_calculate", [DIAG], lambda a, p: a[0].copy().calculate(), weight=2,
   api=("TensorDiagram.copy", "TensorDiagram.calculate"))
Op("div_tt", [ANY, ANY], lambda a, p: a[0] / a[1], api="Tensor.__truediv__")
Op("sub_list", [S(("line", "plane"), coll=False)], lambda a, p: a[0] - [1] * (a[0].shape[-1] - 1) , api="SubspaceTensor.__sub__")
Op("bad_dtype", [], lambda a, p: Tensor(["a", "b"]), api="Tensor._validate_tensor")
Op("plane_from_wrong_type", [PT], lambda a, p: Plane(a[0]), api="Plane")
Op("rmul_list2", [S("any", coll=False, pred=lambda m: m["base"] != "diagram" and len(m["shape"]) == 2)],
   lambda a, p: np.eye(a[0].shape[0]).tolist() * a[0], api="Tensor.__rmul__")

# utils on the coordinate arrays of pool objects (the arrays are the operands' own data)
Op("u_det", [SQUARE], lambda a, p: U.det(a[0].array), api="utils.det")
Op("u_inv", [SQUARE], lambda a, p: U.inv(a[0].array), weight=2, api="utils.inv")
Op("u_adjugate", [SQUARE], lambda a, p: U.adjugate(a[0].array), weight=3, api="utils.adjugate")
Op("u_adjugate2", [SQUARE], lambda a, p: U.adjugate(a[0].array[..., :2, :2]), weight=2, api="utils.adjugate")
Op("u_null_space", [ANY], lambda a, p: U.null_space(a[0].array), api="utils.null_space")
Op("u_orth", [ANY], lambda a, p: U.orth(a[0].array), api="utils.orth")
Op("u_is_multiple", [ANY, ANY], lambda a, p: U.is_multiple(a[0].array, a[1].array, axis=-1), weight=2,
   api="utils.is_multiple")
Op("u_is_multiple_all", [ANY, ANY], lambda a, p: U.is_multiple(a[0].array, a[1].array), api="utils.is_multiple")
Op("u_hat_matrix", [PT], lambda a, p: U.hat_matrix(a[0].array), api="utils.hat_matrix")
Op("u_matmul", [SQUARE, SQUARE], lambda a, p: U.matmul(a[0].array, a[1].array, transpose_b=True), api="utils.matmul")
Op("u_matmul_adj", [SQUARE, SQUARE], lambda a, p: U.matmul(a[0].array, a[1].array, adjoint_a=True),
   api="utils.matmul")
Op("u_matvec", [SQUARE, S(("point", "line", "plane"))], lambda a, p: U.matvec(a[0].array, a[1].array),
   api="utils.matvec")
Op("u_outer", [S(("point", "line", "plane"))] * 2, lambda a, p: U.outer(a[0].array, a[1].array), api="utils.outer")
Op("u_roots", [], lambda a, p: U.roots(p["p"]), p_roots, api="utils.roots")
Op("u_roots_arr", [S(("point", "line", "plane"), coll=False)], lambda a, p: U.roots(a[0].array), weight=2, api="utils.roots")
Op("u_roots_tensor", [S(("point", "line", "plane"), coll=False)], lambda a, p: U.roots(a[0]), api="utils.roots")
Op("u_distinct", [COLL], lambda a, p: list(U.distinct(a[0]))[:4], api="utils.distinct")
Op("u_is_scalar", [ANY], lambda a, p: (U.is_numerical_scalar(a[0].array), U.is_numerical_dtype(a[0].dtype)),
   api=("utils.is_numerical_scalar", "utils.is_numerical_dtype"))
Op("u_index", [ANY], lambda a, p: repr(U.normalize_index(decode_index(p["idx"]), a[0].shape)), p_index,
   api=("utils.normalize_index", "utils.sanitize_index", "utils.posify_index"))


# error and fall-back paths that random binding with well-formed parameters never takes (a query that fails must
# leave its operands alone just like one that succeeds)
def p_misuse(rng, metas, objs):
    return {"how": rng.choice(["noargs", "rank", "covidx", "angle1", "angle4", "pow_frac", "pow_mod", "idx_frac",
                               "idx_str", "idx_many", "idx_cplx", "axis", "dtype", "hat_args", "posify", "ufunc_kw",
                               "ufunc_at", "eq_obj"])}


def _misuse(a, p):
    x, how = a[0], p["how"]
    if how == "noargs":
        return type(x)()
    if how == "rank":
        return Tensor(x.array, tensor_rank=x.array.ndim + 1)
    if how == "covidx":
        return Tensor(x.array, covariant=[x.array.ndim + 3])
    if how == "angle1":
        return O.angle(x)
    if how == "angle4":
        return O.angle(x, x, x, x)
    if how == "pow_frac":
        return x ** 0.5
    if how == "pow_mod":
        return pow(x, 2, 3)
    if how == "idx_frac":
        return x[np.array([0.5])]
    if how == "idx_str":
        return x["a"]
    if how == "idx_many":
        return x[(0,) * (x.array.ndim + 1)]
    if how == "idx_cplx":
        return x[np.array([1j])]
    if how == "axis":
        return U.is_multiple(x.array, x.array, axis="last")
    if how == "dtype":
        return (U.is_numerical_dtype(np.dtype("U3")), U.null_space(np.array([["a", "b"]])))
    if how == "hat_args":
        v = np.asarray(x.array).ravel()[:3]
        return U.hat_matrix(*v.tolist()) if v.size == 3 else U.hat_matrix(1, 2, 3)
    if how == "posify":
        sh = tuple(x.shape) or (1,)
        return repr((U.posify_index(sh, tuple(-1 for _ in sh)), U.posify_index(sh[0], [0, -1]),
                     U.posify_index(sh[0], np.array([-1])), U.posify_index(float("nan"), -1)))
    if how == "ufunc_kw":
        return np.add(x, 1, where=True)
    if how == "ufunc_at":
        return np.add.reduce(x)
    if how == "eq_obj":
        return (x == "abc", x == None, x == object())  # noqa: E711
    raise AssertionError(how)


Op("misuse", [ANY], _misuse, p_misuse, weight=2, api=())
Op("mul_arr", [ANY, ANY], lambda a, p: a[0] * a[1].array, api="Tensor.__mul__")
Op("dist_planes", [PL, PL], lambda a, p: O.dist(a[0], a[1]), api="dist")
Op("dist_plane_line", [PL, LN3], lambda a, p: (O.dist(a[0], a[1]), O.dist(a[1], a[0])), api="dist")
Op("dist_pt_phed", [PT3, PHED], lambda a, p: (O.dist(a[0], a[1]), O.dist(a[1], a[0])), api="dist")
Op("u_matmul_adj_b", [SQUARE, SQUARE], lambda a, p: U.matmul(a[0].array, a[1].array, adjoint_b=True),
   api="utils.matmul")
Op("polytope_item_kinds", [POLYTOPE], lambda a, p: [a[0][i] for i in ((Ellipsis, 0, slice(None)), (Ellipsis, slice(0, 2), slice(None)),
                                                   (Ellipsis, slice(0, 3), slice(None)), 0)],
   api="PolytopeTensor.__getitem__")


# augmented assignment. The library defines no in-place operators, so `y = x.copy(); y *= 2` REBINDS y and leaves x --
# with which y shares its array, copy() is shallow -- alone; the same on an epsilon/delta object leaves the cached
# array alone. A version that adds in-place operators has to keep that promise.
def _aug(x, how, s):
    if how == "imul":
        x *= s
    elif how == "idiv":
        x /= s
    elif how == "iadd":
        x += s
    elif how == "isub":
        x -= s
    elif how == "ipow":
        x **= 1
    elif how == "ineg":
        x = -x
    return x


def p_aug(rng, metas, objs):
    return {"how": rng.choice(["imul", "imul", "idiv", "iadd", "isub", "ipow"]), "s": rng.choice([2, -1, 3, -2])}


def p_aug_eps(rng, metas, objs):
    d = p_aug(rng, metas, objs)
    d.update(p_eps(rng, metas, objs))
    return d


def p_aug_delta(rng, metas, objs):
    d = p_aug(rng, metas, objs)
    d.update(p_delta(rng, metas, objs))
    return d


Op("aug_copy", [ANY], lambda a, p: _aug(a[0].copy(), p["how"], p["s"]), p_aug, weight=2,
   api=("Tensor.__mul__", "Tensor.__truediv__", "Tensor.__add__", "Tensor.__sub__"))
Op("aug_tt", [ANY, ANY], lambda a, p: _aug(a[0].copy(), "iadd" if p["how"] in ("iadd", "imul") else "isub", a[1]), p_aug,
   api=("Tensor.__add__", "Tensor.__sub__"))
Op("aug_eps", [], lambda a, p: _aug(LeviCivitaTensor(p["n"], p["cov"]), p["how"], p["s"]), p_aug_eps,
   api="LeviCivitaTensor")
Op("aug_delta", [], lambda a, p: _aug(KroneckerDelta(p["n"], p["p"]), p["how"], p["s"]), p_aug_delta,
   api="KroneckerDelta")


def _coll_class(x):
    from geometer.curve import QuadricTensor
    from geometer.point import LineTensor, PlaneTensor, PointTensor
    from geometer.shapes import PolygonTensor, SegmentTensor
    from geometer.transformation import TransformationTensor

    for base, cls in ((SegmentTensor, SegmentCollection), (PolygonTensor, PolygonCollection),
                      (PointTensor, PointCollection), (LineTensor, LineCollection), (PlaneTensor, PlaneCollection),
                      (QuadricTensor, QuadricCollection), (TransformationTensor, TransformationCollection)):
        if isinstance(x, base):
            return cls
    return TensorCollection


def _edgeless(a):
    d = TensorDiagram()
    d.add_node(a[0])
    d.add_node(a[1])
    d2 = d.copy()
    return (d.calculate(), d2.calculate())


# -------------------------------------------------------------------------------------------------------------------


def public_api() -> list[str]:
    """Introspected public API of the package: functions, classes, methods, properties (qualified names)."""
    import inspect
    import sys

    names = set()
    for mname in sorted(sys.modules):
        if not (mname == "geometer" or mname.startswith("geometer.")) or mname.endswith("typing"):
            continue
        m = sys.modules[mname]
        pre = "utils." if mname.startswith("geometer.utils") else ""
        for k, v in vars(m).items():
            if k.startswith("_") or getattr(v, "__module__", None) != mname:
                continue
            if inspect.isfunction(v):
                names.add(pre + k)
            elif inspect.isclass(v) and not issubclass(v, BaseException):
                names.add(k)
                for ck, cv in vars(v).items():
                    if ck.startswith("_") and ck not in ("__add__", "__sub__", "__mul__", "__rmul__", "__pow__",
                                                         "__truediv__", "__eq__", "__getitem__", "__neg__", "__radd__",
                                                         "__rsub__", "__apply__", "__array__", "__array_ufunc__",
                                                         "__repr__", "__copy__", "__len__", "__iter__",
                                                         "__array_function__", "_normalized_projection"):
                        continue
                    if ck == "__setitem__":
                        continue
                    if isinstance(cv, (staticmethod, classmethod, property)) or inspect.isfunction(cv):
                        names.add(f"{k}.{ck}")
    return sorted(names)


def uncatalogued_api() -> list[str]:
    covered = set()
    for op in OPS.values():
        covered.update(op.api)
    out = []
    not_operations = {"UFuncParameters", "SubspaceTensor.mirror", "SubspaceTensor.perpendicular",  # TypedDict, abstract
                      "utils.maybe_dispatch_ufunc_to_dunder_op"}  # reached through every ufunc_* op
    for n in public_api():
        if n in covered or n in not_operations:
            continue
        # a class counts as covered when any of its constructors/methods is
        if "." not in n and any(c == n or c.startswith(n + ".") for c in covered):
            continue
        out.append(n)
    return out
