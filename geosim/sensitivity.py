"""Sensitivity self-test: every patch in /verif/mutants and /verif/seeded/*/patch.diff must be detected by the check
of the property it breaks. Each patch is applied to a scratch copy of /repo (outside /repo and /verif), never to
/repo itself; the scratch copy is removed immediately afterwards."""
from __future__ import annotations

import glob
import json
import os
import shutil
import subprocess
import sys
import tempfile
import time

from . import batch

VERIF = batch.VERIF


def corpus() -> list[dict]:
    out = []
    idx = os.path.join(VERIF, "mutants", "index.json")
    if os.path.exists(idx):
        for e in json.load(open(idx)):
            e = dict(e)
            e["patch"] = os.path.join(VERIF, "mutants", e["patch"])
            e.setdefault("base_commit", None)
            out.append(e)
    for meta in sorted(glob.glob(os.path.join(VERIF, "seeded", "*", "meta.json"))):
        m = json.load(open(meta))
        out.append({"name": "seeded/" + os.path.basename(os.path.dirname(meta)), "property": m["property"],
                    "patch": os.path.join(os.path.dirname(meta), "patch.diff"), "base_commit": m.get("base_commit"),
                    "expect_detected": m.get("expect_detected", True), "tier": m.get("tier"),
                    "budget": m.get("budget")})
    return out


def run_one(entry: dict, tier: str, seed: int, workers: int, runs: int | None) -> dict:
    t0 = time.time()
    tmp = tempfile.mkdtemp(prefix="geosim-mut-")
    try:
        shutil.copytree("/repo/geometer", os.path.join(tmp, "geometer"))
        p = subprocess.run(["patch", "-p1", "-s", "--dry-run", "-i", entry["patch"]], cwd=tmp, capture_output=True,
                           text=True)
        based_on = "working tree"
        if p.returncode != 0 and entry.get("base_commit"):
            # the change was written against an earlier commit of /repo and conflicts with a later fix:
            # test it on the tree it was written for
            shutil.rmtree(os.path.join(tmp, "geometer"))
            a = subprocess.run(f"git -C /repo archive {entry['base_commit']} geometer | tar -x -C {tmp}", shell=True,
                               capture_output=True, text=True)
            based_on = entry["base_commit"][:7]
            if a.returncode != 0:
                return {"name": entry["name"], "error": "cannot extract base commit: " + a.stderr[-300:]}
        p = subprocess.run(["patch", "-p1", "-s", "-i", entry["patch"]], cwd=tmp, capture_output=True, text=True)
        if p.returncode != 0:
            return {"name": entry["name"], "error": "patch does not apply: " + (p.stdout + p.stderr)[-400:]}
        env = dict(os.environ)
        env.pop("GEOSIM_CHILD", None)
        env.update({"GEOMETER_SRC": tmp, "GEOSIM_REPLAY_DIR": os.path.join(tmp, "replays")})
        env.setdefault("GEOSIM_MIN_BUDGET", "80")   # the corpus run needs the verdict, not the smallest replay
        # a change that only the deeper exploration finds says so in its meta.json ("tier": "thorough", "budget": s)
        cmd = [sys.executable, os.path.join(VERIF, "check.py"), entry["property"], "--tier", entry.get("tier") or tier,
               "--seed", str(seed), "--no-evidence", "--no-selftest", "--workers", str(workers)]
        if entry.get("budget"):
            cmd += ["--budget", str(entry["budget"])]
        if runs:
            cmd += ["--runs", str(runs)]
        p = subprocess.run(cmd, env=env, capture_output=True, text=True, timeout=3600)
        lines = [x for x in p.stdout.splitlines() if x.startswith(("VIOLATION", "  seed=", "HARNESS", "KNOWN"))]
        return {"name": entry["name"], "property": entry["property"], "exit": p.returncode,
                "detected": p.returncode == 1 and any(x.startswith("VIOLATION") for x in lines),
                "lines": lines[:6], "wall_s": round(time.time() - t0, 1), "based_on": based_on,
                "tail": p.stdout.splitlines()[-1:] if p.stdout else [p.stderr[-300:]]}
    finally:
        shutil.rmtree(tmp, ignore_errors=True)


def main(args) -> int:
    entries = corpus()
    only = os.environ.get("GEOSIM_MUTANTS")
    if only:
        entries = [e for e in entries if any(tok in e["name"] for tok in only.split(","))]
    only_prop = os.environ.get("GEOSIM_PROP")
    if only_prop:
        entries = [e for e in entries if e["property"] == only_prop]
    results = []
    ok = True
    for e in entries:
        r = run_one(e, args.tier, args.seed, args.workers, args.runs)
        results.append(r)
        exp = e.get("expect_detected", True)
        good = (exp is None or (r.get("detected") is True) == exp) and "error" not in r
        ok &= good
        print(f"{'ok  ' if good else 'MISS'} {e['name']:55s} {e['property']} detected={r.get('detected')} "
              f"exit={r.get('exit')} {r.get('wall_s')}s {r.get('error', '')}", flush=True)
        for l in r.get("lines", [])[:3]:
            print("       " + l[:200])
    os.makedirs(os.path.join(VERIF, "evidence"), exist_ok=True)
    json.dump({"tier": args.tier, "seed": args.seed, "results": results},
              open(os.path.join(VERIF, "evidence", "selftest.json"), "w"), indent=1)
    return 0 if ok else 1
