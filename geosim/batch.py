"""Generic seeded batch driver: seeds -> runs on N forked workers -> aggregation, minimisation, replay files,
known findings, evidence. Shared by the C05, C06 and C12 profiles."""
from __future__ import annotations

import concurrent.futures as cf
import faulthandler
import tempfile
import hashlib
import json
import multiprocessing as mp
import os
import random
import subprocess
import sys
import time

VERIF = os.path.dirname(os.path.dirname(os.path.abspath(__file__)))
KNOWN = os.path.join(VERIF, "known_findings.txt")


def merge(total: dict, part: dict) -> None:
    for k, v in part.items():
        if isinstance(v, dict):
            merge(total.setdefault(k, {}), v)
        elif isinstance(v, (int, float)) and not isinstance(v, bool):
            total[k] = max(total.get(k, v), v) if k.startswith("max_") else total.get(k, 0) + v
        elif isinstance(v, list):
            total.setdefault(k, [])
            if len(total[k]) < 50:
                total[k].extend(v[: 50 - len(total[k])])


def seeds_for(base_seed: int):
    """Per-run seeds derived from VERIF_SEED by one PRNG (deterministic, unbounded)."""
    rng = random.Random(base_seed * 7919 + 17)
    while True:
        yield rng.getrandbits(40)


def load_known() -> list[dict]:
    out = []
    if not os.path.exists(KNOWN):
        return out
    for line in open(KNOWN, encoding="utf-8"):
        line = line.strip()
        if not line or line.startswith("#"):
            continue
        status, _, rest = line.partition(":")
        status = status.strip()
        if status not in ("open", "fixed"):
            continue
        ent = {"status": status, "line": line}
        for tok in rest.split():
            if tok.startswith("property="):
                ent["property"] = tok[len("property="):]
        if "signature=" in rest:
            ent["signature"] = rest.split("signature=", 1)[1].split(" :: ")[0].strip()
        ent["what"] = rest.split(" :: ", 1)[1].strip() if " :: " in rest else rest.strip()
        out.append(ent)
    return out


_worker_fn = None


_MARK_DIR = "/dev/shm" if os.path.isdir("/dev/shm") else tempfile.gettempdir()


def _mark_path(pid: int) -> str:
    return os.path.join(_MARK_DIR, f"geosim-running-{os.getppid() if pid == 0 else pid}")


def _worker_entry(args):
    fn, seed, want_sample, timeout = args
    # which seed this process is working on, readable by the parent if the process dies (hang killed by the watchdog,
    # crash inside a C extension): a harness error must at least name its seed
    mark = os.path.join(_MARK_DIR, f"geosim-running-{os.getppid()}-{os.getpid()}")
    try:
        with open(mark, "w") as f:
            f.write(repr(seed))
    except OSError:
        mark = None
    faulthandler.dump_traceback_later(timeout, exit=True)
    try:
        return fn(seed, want_sample)
    finally:
        faulthandler.cancel_dump_traceback_later()
        if mark:
            try:
                os.unlink(mark)
            except OSError:
                pass


def _dead_worker_seeds() -> list[str]:
    import glob

    out = []
    for pth in glob.glob(os.path.join(_MARK_DIR, f"geosim-running-{os.getpid()}-*")):
        try:
            out.append(open(pth).read())
            os.unlink(pth)
        except OSError:
            pass
    return out


def run_batch(run_seed, base_seed: int, n_runs: int | None, budget_s: float, workers: int, per_run_timeout: int = 300,
              max_violations: int = 4, progress=None, tasks=None) -> dict:
    """Runs seeds until n_runs or budget is exhausted, or max_violations distinct signatures were seen."""
    t0 = time.time()
    agg = {"runs": 0, "stats": {}, "hsigs": set(), "nontrivial_hsigs": set(), "samples": [], "violations": {},
           "harness_errors": [], "digests": {}, "configs": {}, "first_seeds": [], "wall_runs": 0.0}
    gen = seeds_for(base_seed) if tasks is None else iter(tasks)
    if tasks is not None:
        n_runs = len(tasks)
    ctx = mp.get_context("fork")
    submitted = 0
    sample_every = 97

    def want(k):
        return k % sample_every == 0

    order: dict = {}   # future -> submission index (results arrive in any order; nothing may depend on that order)
    with cf.ProcessPoolExecutor(max_workers=workers, mp_context=ctx) as ex:
        pending = set()
        stop = False

        def submit():
            nonlocal submitted
            seed = next(gen)
            if len(agg["first_seeds"]) < 8:
                agg["first_seeds"].append(seed)
            fut = ex.submit(_worker_entry, (run_seed, seed, want(submitted), per_run_timeout))
            order[fut] = submitted
            pending.add(fut)
            submitted += 1

        def more() -> bool:
            if stop:
                return False
            if n_runs is not None and submitted >= n_runs:
                return False
            return time.time() - t0 < budget_s

        while len(pending) < workers * 3 and more():
            submit()
        while pending:
            done, pending = cf.wait(pending, return_when=cf.FIRST_COMPLETED, timeout=per_run_timeout + 60)
            if not done:
                agg["harness_errors"].append("timeout waiting for workers")
                for f in pending:
                    f.cancel()
                break
            for f in sorted(done, key=lambda x: order.get(x, 0)):
                sub_idx = order.pop(f, 0)
                try:
                    r = f.result()
                except Exception as e:  # noqa: BLE001  (BrokenProcessPool, worker killed by faulthandler, ...)
                    agg["harness_errors"].append(f"worker failure: {type(e).__name__}: {e}")
                    stop = True
                    dead = _dead_worker_seeds()
                    if dead:
                        agg["harness_errors"].append("seeds in progress when a worker died: " + ", ".join(dead[:8]))
                    continue
                agg["runs"] += 1
                agg["wall_runs"] += r.get("wall", 0.0)
                merge(agg["stats"], r.get("stats", {}))
                agg["configs"][r.get("config", "?")] = agg["configs"].get(r.get("config", "?"), 0) + 1
                if r.get("hsig"):
                    agg["hsigs"].add(r["hsig"])
                    if r.get("nontrivial"):
                        agg["nontrivial_hsigs"].add(r["hsig"])
                for k, seedspec in (r.get("site_hits") or {}).items():
                    lst = agg.setdefault("_site_hits", {}).setdefault(tuple(k) if not isinstance(k, tuple) else k, [])
                    lst.append((sub_idx, seedspec))
                    lst.sort(key=lambda x: x[0])
                    del lst[3:]
                for k, ops_ in (r.get("site_ops") or {}).items():
                    d_ = agg.setdefault("site_ops", {}).setdefault(tuple(k) if not isinstance(k, tuple) else k, {})
                    for op_ in ops_:
                        if op_ not in d_ or sub_idx < d_[op_][0]:
                            d_[op_] = (sub_idx, r["seed"])
                        # up to three programs per (site, operation), earliest submitted first
                        l_ = agg.setdefault("site_op_seeds", {}).setdefault((tuple(k), op_), [])
                        l_.append((sub_idx, r["seed"]))
                        l_.sort()
                        del l_[3:]
                if r.get("cov_new"):
                    agg.setdefault("cov", set()).update(tuple(k) for k in r["cov_new"])
                if r.get("sched_sig"):
                    agg.setdefault("sched_sigs", set()).add(r["sched_sig"])
                if r.get("sample") and len(agg["samples"]) < 6:
                    agg["samples"].append(r["sample"])
                if r.get("harness_error"):
                    agg["harness_errors"].append(f"seed {r['seed']}: {r['harness_error']}")
                    if len(agg["harness_errors"]) > 5:
                        stop = True
                if r.get("violation"):
                    sig = r["violation"]["signature"]
                    if sig not in agg["violations"] or sub_idx < agg["violations"][sig].get("_idx", 0):
                        r["_idx"] = sub_idx
                        agg["violations"][sig] = r
                    if len(agg["violations"]) >= max_violations:
                        stop = True
                while len(pending) < workers * 3 and more():
                    submit()
            if progress and agg["runs"] % 2000 < len(done):
                progress(agg, time.time() - t0)
    agg["wall"] = time.time() - t0
    if "_site_hits" in agg:   # the three earliest-submitted seeds per site, whatever order the results came back in
        agg["site_hits"] = {k: [s_ for _i, s_ in v] for k, v in agg.pop("_site_hits").items()}
    return agg


def write_replay(prop: str, seed, case: dict, violation: dict, extra: dict | None = None) -> str:
    rdir = os.environ.get("GEOSIM_REPLAY_DIR") or os.path.join(VERIF, "replays")
    os.makedirs(rdir, exist_ok=True)
    body = {"property": prop, "seed": seed, "expected": {k: violation.get(k) for k in
                                                          ("prop", "oracle", "op", "signature", "detail", "step")},
            "case": case, "geometer_sha256": source_hashes()}
    if extra:
        body.update(extra)
    blob = json.dumps(body, indent=1, sort_keys=True, default=_json_default)
    h = hashlib.sha256(blob.encode()).hexdigest()[:10]
    path = os.path.join(rdir, f"{prop}-{seed}-{h}.json")
    with open(path, "w", encoding="utf-8") as f:
        f.write(blob)
    return path


def _json_default(o):
    import numpy as np

    if isinstance(o, (np.integer,)):
        return int(o)
    if isinstance(o, (np.floating,)):
        return float(o)
    if isinstance(o, np.ndarray):
        return o.tolist()
    if isinstance(o, (set, frozenset)):
        return sorted(o)
    if isinstance(o, complex):
        return {"complex": [o.real, o.imag]}
    if isinstance(o, bytes):
        return o.hex()
    return repr(o)


def source_hashes() -> dict:
    import geometer

    root = os.path.dirname(os.path.abspath(geometer.__file__))
    out = {}
    for d, _dirs, files in os.walk(root):
        for f in sorted(files):
            if f.endswith(".py"):
                p = os.path.join(d, f)
                out[os.path.relpath(p, root)] = hashlib.sha256(open(p, "rb").read()).hexdigest()[:16]
    return out


def fresh_replay(prop: str, path: str, timeout: int = 600) -> tuple[bool, str]:
    """Re-execute a replay file in a fresh interpreter. True iff it reproduces the expected violation."""
    cmd = [sys.executable, os.path.join(VERIF, "check.py"), prop, "--replay", path, "--quiet-replay"]
    try:
        p = subprocess.run(cmd, capture_output=True, text=True, timeout=timeout)
    except subprocess.TimeoutExpired:
        return False, "fresh replay timed out"
    return p.returncode == 1 and "REPRODUCED" in p.stdout, (p.stdout + p.stderr)[-2000:]


def write_evidence(prop: str, tier: str, seed: int, coverage: dict, assumptions: list[str], wall: float,
                   violations: int, extra: dict | None = None) -> str:
    os.makedirs(os.path.join(VERIF, "evidence"), exist_ok=True)
    ev = {"property_id": prop, "tier": tier, "seed": int(seed), "level": "exploration", "coverage": coverage,
          "assumptions": assumptions, "wall_s": round(wall, 2), "violations": int(violations)}
    if extra:
        ev.update(extra)
    path = os.path.join(VERIF, "evidence", f"{prop}.json")
    tmp = path + ".tmp"
    with open(tmp, "w", encoding="utf-8") as f:
        json.dump(ev, f, indent=1, default=_json_default)
    os.replace(tmp, path)
    return path
