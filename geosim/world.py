"""World: pool of live objects built from JSON recipes, process-wide globals/caches, O1 bookkeeping."""
from __future__ import annotations

import itertools
import types

import numpy as np

import geometer
from geometer import (
    Circle, Cone, Conic, Cuboid, Cylinder, Ellipse, Line, LineCollection, Plane, PlaneCollection, Point,
    PointCollection, Polygon, PolygonCollection, Quadric, QuadricCollection, Rectangle, RegularPolygon, Segment,
    SegmentCollection, Simplex, Sphere, Transformation, TransformationCollection, Triangle,
)
from geometer import transformation as _tr
from geometer.base import KroneckerDelta, LeviCivitaTensor, Tensor, TensorCollection, TensorDiagram

from . import snapshot

DT = {"i": np.int64, "f": np.float64, "c": np.complex128, "i32": np.int32, "f32": np.float32, "b": np.bool_,
      "i8": np.int8, "i16": np.int16, "f16": np.float16, "u8": np.uint8}

# ---------------------------------------------------------------------------------------------------------
# independent definitions of epsilon / delta


def eps_def(n: int) -> np.ndarray:
    a = np.zeros((n,) * n, dtype=np.int8)
    for perm in itertools.permutations(range(n)):
        inv = sum(1 for i in range(n) for j in range(i + 1, n) if perm[i] > perm[j])
        a[perm] = -1 if inv % 2 else 1
    return a


def delta_def(n: int, p: int) -> np.ndarray:
    """delta^{mu_1..mu_p}_{nu_1..nu_p} = det[ delta(mu_i, nu_j) ] -- computed from the determinant definition."""
    a = np.zeros((n,) * (2 * p), dtype=np.int64)
    for mu in itertools.product(range(n), repeat=p):
        if len(set(mu)) < p:
            continue  # two equal rows -> determinant 0
        for perm in itertools.permutations(range(p)):
            nu = tuple(mu[perm[i]] for i in range(p))
            inv = sum(1 for i in range(p) for j in range(i + 1, p) if perm[i] > perm[j])
            a[nu + mu] = -1 if inv % 2 else 1
    return a


_EPS_DEF: dict[int, np.ndarray] = {}
_DELTA_DEF: dict[tuple[int, int], np.ndarray] = {}


def eps_ref(n: int) -> np.ndarray:
    if n not in _EPS_DEF:
        _EPS_DEF[n] = eps_def(n)
    return _EPS_DEF[n]


def delta_ref(n: int, p: int) -> np.ndarray:
    if (n, p) not in _DELTA_DEF:
        _DELTA_DEF[(n, p)] = delta_def(n, p)
    return _DELTA_DEF[(n, p)]


def check_caches() -> list[tuple[str, str, str]]:
    """Every existing cache entry must equal its definition. Returns list of (name, path, kind)."""
    bad = []
    for k, arr in list(LeviCivitaTensor._cache.items()):
        if isinstance(k, int) and 0 < k <= 7:
            ref = eps_ref(k)
            if not (isinstance(arr, np.ndarray) and arr.shape == ref.shape and np.array_equal(arr, ref)):
                bad.append(("LeviCivitaTensor._cache", f"[{k}]", "cache-entry-differs-from-definition"))
    for k, arr in list(KroneckerDelta._cache.items()):
        if isinstance(k, tuple) and len(k) == 2 and all(isinstance(x, int) for x in k):
            p, n = k
            if n ** (2 * p) <= 200_000 and p <= n:
                ref = delta_ref(n, p)
                if not (isinstance(arr, np.ndarray) and arr.shape == ref.shape and np.array_equal(arr, ref)):
                    bad.append(("KroneckerDelta._cache", f"[{k}]", "cache-entry-differs-from-definition"))
    return bad


def evict_caches(which: int = 3) -> None:
    if which & 1:
        LeviCivitaTensor._cache.clear()
    if which & 2:
        KroneckerDelta._cache.clear()


def canonical_start(warm: list) -> None:
    """Put process-wide state into a seed-determined state: caches cleared then pre-warmed in the given order."""
    reset_process_state()
    restore_globals()
    evict_caches(3)
    for w in warm:
        if w[0] == "e":
            LeviCivitaTensor(w[1])
        else:
            KroneckerDelta(w[1], w[2])


# ---------------------------------------------------------------------------------------------------------
# discovery of module-level constants and default arguments


def discover_globals() -> list[tuple[str, object]]:
    out: list[tuple[str, object]] = []
    seen: set[int] = set()

    def add(name, o):
        if isinstance(o, (Tensor, np.ndarray)) and id(o) not in seen:
            seen.add(id(o))
            out.append((name, o))

    def visit_func(name, f):
        if isinstance(f, (staticmethod, classmethod)):
            f = f.__func__
        if isinstance(f, property):
            for g in (f.fget, f.fset):
                if g is not None:
                    visit_func(name, g)
            return
        if not isinstance(f, types.FunctionType):
            return
        for i, d in enumerate(f.__defaults__ or ()):
            add(f"{name}.__defaults__[{i}]", d)
        for k, d in sorted((f.__kwdefaults__ or {}).items()):
            add(f"{name}.__kwdefaults__[{k}]", d)

    import sys

    for mname in sorted(sys.modules):
        if not (mname == "geometer" or mname.startswith("geometer.")):
            continue
        m = sys.modules[mname]
        short = mname.replace("geometer.", "")
        for k in sorted(vars(m)):
            v = vars(m)[k]
            if isinstance(v, (Tensor, np.ndarray)):
                add(f"{short}.{k}", v)
            elif isinstance(v, types.FunctionType) and v.__module__ == mname:
                visit_func(f"{short}.{k}", v)
            elif isinstance(v, type) and v.__module__ == mname:
                for ck in sorted(vars(v)):
                    cv = vars(v)[ck]
                    if isinstance(cv, (Tensor, np.ndarray)):
                        add(f"{short}.{k}.{ck}", cv)
                    elif isinstance(cv, (list, tuple)):
                        for i, x in enumerate(cv):
                            add(f"{short}.{k}.{ck}[{i}]", x)
                    else:
                        visit_func(f"{short}.{k}.{ck}", cv)
            elif isinstance(v, (list, tuple)):
                for i, x in enumerate(v):
                    add(f"{short}.{k}[{i}]", x)
            elif isinstance(v, dict) and not k.startswith("__"):
                for kk in sorted(v, key=repr):
                    add(f"{short}.{k}[{kk!r}]", v[kk])
    return out


GLOBALS: list[tuple[str, object]] = []
_GLOBAL_SNAPS: list = []
CONTAINERS: list[tuple[str, object, object]] = []   # (name, live container, shallow copy taken at start-up)
CLEARABLE: list[tuple[str, object]] = []            # functools caches etc. (objects with cache_clear)
LAZY_SLOTS: list[tuple[object, str]] = []           # (module or class, attribute) that is None at start-up


BINDINGS: list[tuple[object, str, object, object]] = []   # (owner, attribute, object bound at start-up, array copy or None)
NAMESPACES: list[tuple[object, frozenset]] = []          # (module / class / function, attribute names at start-up)

_DATA = (type(None), bool, int, float, complex, str, bytes, tuple, frozenset, dict, list, set, np.ndarray, np.generic)


def discover_containers() -> None:
    """Everything at module, class or function-attribute level in the geometer package that can carry state from one
    call to the next: mutable containers (today: the two `_cache` dicts and constant tables such as
    DISPATCHED_UFUNCS), functools caches, and every binding of a data value (None/number/tuple/array/tensor/...;
    a memo that is rebound rather than mutated). A run starts by restoring all of it to the start-up state, so that a
    run is a pure function of its seed even if a later version of the library adds process-wide memoisation the
    harness has never heard of."""
    import sys
    import types

    from geometer.base import Tensor

    CONTAINERS.clear()
    CLEARABLE.clear()
    LAZY_SLOTS.clear()
    BINDINGS.clear()
    NAMESPACES.clear()
    seen: set[int] = set()

    def add(name, v):
        if id(v) in seen:
            return
        if isinstance(v, (dict, list, set)) :
            seen.add(id(v))
            CONTAINERS.append((name, v, type(v)(v)))
        elif hasattr(v, "cache_clear") and callable(getattr(v, "cache_clear", None)):
            seen.add(id(v))
            CLEARABLE.append((name, v))

    def bind(owner, k, v):
        if isinstance(v, _DATA) or isinstance(v, Tensor):
            BINDINGS.append((owner, k, v, v.copy() if isinstance(v, np.ndarray) else None))

    def func(f):
        f = getattr(f, "__func__", f)
        f = getattr(f, "__wrapped__", f) if not isinstance(f, types.FunctionType) else f
        if isinstance(f, types.FunctionType) and str(getattr(f, "__module__", "")).startswith("geometer"):
            NAMESPACES.append((f, frozenset(vars(f))))

    for mname in sorted(sys.modules):
        if not (mname == "geometer" or mname.startswith("geometer.")):
            continue
        m = sys.modules[mname]
        NAMESPACES.append((m, frozenset(vars(m))))
        for k in sorted(vars(m)):
            v = vars(m)[k]
            if k.startswith("__"):
                continue
            if v is None:
                LAZY_SLOTS.append((m, k))   # a lazily initialised module-level singleton starts out as None
            bind(m, k, v)
            if isinstance(v, type) and v.__module__ == mname:
                NAMESPACES.append((v, frozenset(vars(v))))
                for ck in sorted(vars(v)):
                    if ck.startswith("__"):
                        continue
                    cv = vars(v)[ck]
                    if cv is None and ck not in getattr(v, "__annotations__", {}):
                        LAZY_SLOTS.append((v, ck))
                    bind(v, ck, cv)
                    add(f"{mname}.{k}.{ck}", cv)
                    f = getattr(cv, "__func__", cv)
                    add(f"{mname}.{k}.{ck}", f)
                    func(cv)
                    if isinstance(cv, property):
                        for g in (cv.fget, cv.fset):
                            if g is not None:
                                func(g)
            else:
                add(f"{mname}.{k}", v)
                if getattr(v, "__module__", None) == mname:
                    func(v)


def reset_process_state() -> None:
    for owner, names in NAMESPACES:
        extra = [k for k in vars(owner) if k not in names and not k.startswith("__")]
        for k in extra:
            try:
                delattr(owner, k)
            except Exception:  # noqa: BLE001
                pass
    for owner, attr, obj, arr in BINDINGS:
        try:
            if vars(owner).get(attr, obj) is not obj or attr not in vars(owner):
                setattr(owner, attr, obj)
            if arr is not None and not (obj.shape == arr.shape and obj.dtype == arr.dtype
                                        and obj.tobytes() == arr.tobytes()):
                if obj.shape != arr.shape:
                    obj.resize(arr.shape, refcheck=False)
                obj.flags.writeable = True
                np.copyto(obj, arr, casting="unsafe")
        except Exception:  # noqa: BLE001
            pass
    for _name, live, saved in CONTAINERS:
        if isinstance(live, dict):
            live.clear()
            live.update(saved)
        elif isinstance(live, set):
            live.clear()
            live.update(saved)
        else:
            live[:] = saved
    for _name, f in CLEARABLE:
        try:
            f.cache_clear()
        except Exception:  # noqa: BLE001
            pass
    for owner, attr in LAZY_SLOTS:
        try:
            if getattr(owner, attr, None) is not None:
                setattr(owner, attr, None)
        except Exception:  # noqa: BLE001
            pass


def init_globals() -> None:
    global GLOBALS, _GLOBAL_SNAPS
    GLOBALS = discover_globals()
    _GLOBAL_SNAPS = [snapshot.snap(o) for _n, o in GLOBALS]
    _GLOBAL_BACKUPS[:] = [_backup(o) for _n, o in GLOBALS]
    discover_containers()
    discover_public_bindings()


PUBLIC_BINDINGS: list[tuple[str, object, str, object]] = []   # (name, owner, attribute, snapshot at start-up)


def discover_public_bindings() -> None:
    """Module- and class-level names without a leading underscore that are bound to data (EQ_TOL_ABS, I, infty, the
    ufunc tables, ...): the package's constants. Neither their value nor what they are bound to may change; private
    names (`_cache`, memo variables) are state the library may manage as it likes and are judged through answers."""
    import sys
    import types as _t

    PUBLIC_BINDINGS.clear()
    for owner, attr, obj, _arr in BINDINGS:
        if attr.startswith("_") or not isinstance(owner, (_t.ModuleType, type)):
            continue
        if isinstance(owner, _t.ModuleType) and attr in ("annotations", "TYPE_CHECKING"):
            continue
        oname = owner.__name__.replace("geometer.", "") if isinstance(owner, _t.ModuleType) else \
            f"{owner.__module__.replace('geometer.', '')}.{owner.__name__}"
        PUBLIC_BINDINGS.append((f"{oname}.{attr}", owner, attr, snapshot.snap(obj)))


_MISSING = object()


_GLOBAL_BACKUPS: list = []


def _backup(o):
    import copy

    if isinstance(o, np.ndarray):
        return o.copy()
    return {k: (v.copy() if isinstance(v, np.ndarray) else copy.deepcopy(v)) for k, v in o.__dict__.items()}


def restore_globals() -> None:
    """Put every module constant / default argument back to what it was at start-up (contents of arrays in place, so
    that aliases stay aliases; everything else by value). Called at the start of every run: a constant damaged by one
    run (reported there) must not be found damaged by the next one."""
    import copy

    for (_name, o), s, b in zip(GLOBALS, _GLOBAL_SNAPS, _GLOBAL_BACKUPS):
        try:
            if snapshot.snap(o) == s:
                continue
            if isinstance(o, np.ndarray):
                o.flags.writeable = True
                o[...] = b
                continue
            d = o.__dict__
            for k in [k for k in d if k not in b]:
                del d[k]
            for k, v in b.items():
                cur = d.get(k)
                if isinstance(v, np.ndarray) and isinstance(cur, np.ndarray) and cur.shape == v.shape \
                        and cur.dtype == v.dtype:
                    if cur.flags.writeable != v.flags.writeable:
                        cur.flags.writeable = True
                    cur[...] = v
                    if not v.flags.writeable:
                        cur.flags.writeable = False
                elif isinstance(v, np.ndarray):
                    d[k] = v.copy()
                else:
                    d[k] = copy.deepcopy(v)
        except Exception:  # noqa: BLE001
            pass


def check_globals() -> list[tuple[str, str, str]]:
    bad = []
    for (name, o), s in zip(GLOBALS, _GLOBAL_SNAPS):
        s2 = snapshot.snap(o)
        if s2 != s:
            for path, kind in snapshot.diff(s, s2):
                if kind != "fill":
                    bad.append((name, path, kind))
    for name, owner, attr, s in PUBLIC_BINDINGS:
        cur = vars(owner).get(attr, _MISSING)
        if cur is _MISSING:
            bad.append((name, "", "constant-removed"))
            continue
        s2 = snapshot.snap(cur)
        if s2 != s:
            d = [(p_, k_) for p_, k_ in snapshot.diff(s, s2) if k_ != "fill"] or [("", "constant-rebound")]
            for path, kind in d[:3]:
                bad.append((name, path, "constant-" + kind if not kind.startswith("constant") else kind))
    return bad


def restore_globals_note() -> str:
    return "globals are compared against the snapshot taken at import; a damaged global poisons the worker"


# ---------------------------------------------------------------------------------------------------------
# meta / kinds


def meta(o) -> dict | None:
    """Small description used by the generator to choose type-compatible operands."""
    from geometer.curve import QuadricTensor
    from geometer.point import LineTensor, PlaneTensor, PointTensor
    from geometer.shapes import PolygonTensor, Polyhedron, PolytopeTensor, SegmentTensor
    from geometer.transformation import TransformationTensor

    if isinstance(o, TensorDiagram):
        return {"base": "diagram", "cls": "TensorDiagram", "dim": None, "coll": False, "fshape": ()}
    if isinstance(o, list):
        return {"base": "seq", "cls": "list", "dim": None, "coll": False, "fshape": (), "shape": (len(o),), "tshape": (0, 0)}
    if not isinstance(o, Tensor):
        return None
    try:
        fi = o.free_indices
    except Exception:
        return None
    m = {"cls": type(o).__name__, "coll": fi > 0, "fshape": tuple(o.shape[:fi]), "dim": None,
         "tshape": o.tensor_shape, "shape": tuple(o.shape), "dk": o.dtype.kind}
    if isinstance(o, SegmentTensor):
        m["base"] = "segment"
    elif isinstance(o, PolygonTensor):
        m["base"] = "polygon"
    elif isinstance(o, Polyhedron):
        m["base"] = "polyhedron"
    elif isinstance(o, PolytopeTensor):
        m["base"] = "polytope"
    elif isinstance(o, PointTensor):
        m["base"] = "point"
    elif isinstance(o, LineTensor):
        m["base"] = "line"
    elif isinstance(o, PlaneTensor):
        m["base"] = "plane"
    elif isinstance(o, QuadricTensor):
        m["base"] = "quadric"
        m["dual"] = bool(getattr(o, "is_dual", False))
    elif isinstance(o, TransformationTensor):
        m["base"] = "transf"
    else:
        m["base"] = "tensor"
    if m["base"] != "tensor":
        m["dim"] = o.shape[-1] - 1
        if m["base"] in ("segment", "polygon", "polyhedron", "polytope"):
            pd = getattr(o, "pdim", 0)
            # collection shape of polytopes: free indices minus the vertex/facet axes
            nv = {1: 1, 2: 1, 3: 2}.get(pd, 1)
            m["pshape"] = tuple(o.shape[: max(fi - nv, 0)])
            m["pcoll"] = len(m["pshape"]) > 0
    return m


# ---------------------------------------------------------------------------------------------------------
# recipes


_LAYOUT = None   # memory layout requested by the recipe being built (recipe key "layout"), see World.build


def _lay(arr):
    """Same values, another memory layout: users hand over transposed views, Fortran-ordered results of other
    libraries, column-major imports. np.array(copy=True) inside the constructors keeps such a layout (order="K")."""
    if _LAYOUT == "F" and arr.ndim >= 2:
        return np.asfortranarray(arr)
    if _LAYOUT == "M" and arr.ndim >= 2:   # the strides of the last two axes exchanged (a transposed matrix view)
        return np.ascontiguousarray(np.swapaxes(arr, -1, -2)).swapaxes(-1, -2)
    return arr


def _arr(a, dt="i"):
    return _lay(np.array(a, dtype=DT[dt]))


def _ref(world, r):
    return world.get(r["$"])


def _b_point(w, c, how="hom", dt="i"):
    if how == "affine":
        return Point(*c[:-1])
    if how == "nocopy":
        return Point(_arr(c, dt), copy=False)
    return Point(_arr(c, dt))


def _b_pointcoll(w, a, dt="i", homogenize=False, how="ctor"):
    arr = _arr(a, dt)
    if how == "from_array":
        return PointCollection.from_array(arr)
    return PointCollection(arr, homogenize=homogenize)


def _b_emptycoll(w, n, what="point"):
    """a collection with zero elements"""
    if what == "transf":
        return TransformationCollection(np.zeros((0, n, n)))
    return PointCollection(np.zeros((0, n)))


def _b_line(w, c, dt="i"):
    return Line(_arr(c, dt))


def _b_line_pq(w, p, q):
    return Line(w.get(p), w.get(q))


def _b_linecoll_pq(w, p, q):
    return LineCollection(w.get(p), w.get(q))


def _b_linecoll(w, a, dt="i"):
    return LineCollection(_arr(a, dt))


def _b_plane(w, c, dt="i"):
    return Plane(_arr(c, dt))


def _b_plane_pqr(w, p, q, r):
    return Plane(w.get(p), w.get(q), w.get(r))


def _b_planecoll(w, a, dt="i"):
    return PlaneCollection(_arr(a, dt))


def _b_conic(w, m, dual=False, dt="f"):
    return Conic(_arr(m, dt), is_dual=dual)


def _b_quadric(w, m, dual=False, dt="f"):
    return Quadric(_arr(m, dt), is_dual=dual)


def _b_quadriccoll(w, ms, dual=False, dt="f"):
    return QuadricCollection(_arr(ms, dt), is_dual=dual)


def _b_circle(w, c, r):
    return Circle(w.get(c), r) if c is not None else Circle(radius=r)


def _b_ellipse(w, c, h, v):
    return Ellipse(w.get(c), h, v) if c is not None else Ellipse(hradius=h, vradius=v)


def _b_sphere(w, c, r):
    return Sphere(w.get(c), r) if c is not None else Sphere(radius=r)


def _b_cone(w, v, b, r):
    return Cone(w.get(v), w.get(b), r) if v is not None else Cone(radius=r)


def _b_cylinder(w, c, d, r):
    return Cylinder(w.get(c), w.get(d), r) if c is not None else Cylinder(radius=r)


def _b_transf(w, m, dt="f"):
    return Transformation(_arr(m, dt))


def _b_transfcoll(w, ms, dt="f"):
    return TransformationCollection(_arr(ms, dt))


def _b_ctransf(w, re, im):
    return Transformation(_lay(np.array(re, dtype=float) + 1j * np.array(im, dtype=float)))


def _b_ctransfcoll(w, re, im):
    return TransformationCollection(_lay(np.array(re, dtype=float) + 1j * np.array(im, dtype=float)))


def _b_cquadric(w, re, im, dual=False, coll=False):
    m = _lay(np.array(re, dtype=float) + 1j * np.array(im, dtype=float))
    if coll:
        return QuadricCollection(m, is_dual=dual)
    return (Conic if m.shape[-1] == 3 else Quadric)(m, is_dual=dual)


def _b_transfstack(w, ts):
    """a collection built from Transformation objects"""
    return TransformationCollection([w.get(t) for t in ts])


def _b_rotation(w, angle, axis=None):
    return _tr.rotation(angle, axis=w.get(axis) if axis is not None else None)


def _b_translation(w, c):
    return _tr.translation(*c)


def _b_scaling(w, f):
    return _tr.scaling(*f)


def _b_reflection(w, ax):
    return _tr.reflection(w.get(ax))


def _b_segment(w, p, q):
    return Segment(w.get(p), w.get(q))


def _b_segmentcoll(w, p, q):
    return SegmentCollection(w.get(p), w.get(q))


def _b_segment_arr(w, a, dt="i"):
    return Segment(_arr(a, dt))


def _b_polygon(w, pts):
    return Polygon(*[w.get(p) for p in pts])


def _b_polygon_arr(w, a, dt="i"):
    return Polygon(_arr(a, dt))


def _b_triangle(w, p, q, r):
    return Triangle(w.get(p), w.get(q), w.get(r))


def _b_rectangle(w, pts):
    return Rectangle(*[w.get(p) for p in pts])


def _b_regpoly(w, c, r, n, axis=None):
    return RegularPolygon(w.get(c), r, n, axis=w.get(axis) if axis is not None else None)


def _b_polygoncoll(w, a, dt="i"):
    return PolygonCollection(_arr(a, dt))


def _b_cuboid(w, a, b, c, d):
    return Cuboid(w.get(a), w.get(b), w.get(c), w.get(d))


def _b_simplex(w, pts):
    return Simplex(*[w.get(p) for p in pts])


def _b_tensor(w, a, cov=True, dt="i", layout=None):
    arr = np.array(a).astype(DT[dt])
    layout = layout or {"F": "F", "M": "T"}.get(_LAYOUT)
    if layout == "F":
        arr = np.asfortranarray(arr)
    elif layout == "T" and arr.ndim >= 2:
        arr = np.ascontiguousarray(arr.T).T          # same values, reversed strides (a transposed view)
    elif layout == "S" and arr.ndim >= 1:
        big = np.zeros(tuple(2 * k for k in arr.shape), dtype=arr.dtype)
        big[tuple(slice(None, None, 2) for _ in arr.shape)] = arr
        arr = big[tuple(slice(None, None, 2) for _ in arr.shape)]   # a strided, non-contiguous view
    if layout:
        return Tensor(arr, covariant=cov, copy=False)
    return Tensor(arr, covariant=cov)


def _b_ctensor(w, re, im, cov=True):
    return Tensor(np.array(re, dtype=np.int64) + 1j * np.array(im, dtype=np.int64), covariant=cov if cov else False)


def _b_tensorcoll(w, a, cov=True, rank=1, dt="i"):
    return TensorCollection(_lay(np.array(a).astype(DT[dt])), covariant=cov, tensor_rank=rank)


def _b_eps(w, n, cov=True):
    return LeviCivitaTensor(n, cov)


def _b_delta(w, n, p=1):
    return KroneckerDelta(n, p)


def _b_const(w, name):
    """The public module constants themselves (shared with every other run in the process), as operands."""
    import geometer.curve
    import geometer.point

    return {"I": geometer.point.I, "J": geometer.point.J, "infty": geometer.point.infty,
            "infty_plane": geometer.point.infty_plane, "absolute_conic": geometer.curve.absolute_conic}[name]


def _b_ptlist(w, slots):
    """a plain Python list of pool objects, kept in the pool: container arguments are arguments too"""
    return [w.get(s) for s in slots]


def _b_alias(w, of, how, idx=None):
    x = w.get(of)
    if how == "copy":
        return x.copy()
    if how == "ctor":
        return type(x)(x, copy=False)
    if how == "item":
        return x[decode_index(idx)]
    if how == "from_tensor":
        from geometer.base import TensorCollection as TC

        cls = type(x)
        if issubclass(cls, TC):
            return cls.from_tensor(x)
        return type(x)(x, copy=False)
    raise ValueError(how)


def _b_twin(w, of):
    """An object of the same class, shape and dtype as `of` with different coordinates (translated by one unit along
    the first axis where that means something; some other tensor of the same kind otherwise)."""
    from geometer.shapes import PolygonTensor, SegmentTensor

    x = w.get(of)
    a = np.array(x.array)          # Tensor.copy() is shallow
    if a.dtype.kind not in "iufc" or a.size == 0:
        raise ValueError("no twin")
    if a.ndim >= 1 and a.shape[-1] >= 2 and np.any(a[..., -1] != 0):
        a[..., 0] = a[..., 0] + a[..., -1]
    else:
        a[(0,) * a.ndim] = a[(0,) * a.ndim] + 1
    if isinstance(x, (SegmentTensor, PolygonTensor)):
        # the supporting line / plane is computed by the constructor
        base = (SegmentCollection if x.free_indices else Segment) if isinstance(x, SegmentTensor) else \
            (PolygonCollection if x.free_indices else Polygon)
        y = base(a, copy=False)
        if set(y.__dict__) == set(x.__dict__):
            y.__class__ = type(x)
        return y
    y = x.copy()
    y.array = a
    return y


def _b_diagram(w, edges=(), nodes=()):
    d = TensorDiagram()
    for n in nodes:
        d.add_node(w.get(n))
    for a, b in edges:
        d.add_edge(w.get(a), w.get(b))
    return d


BUILDERS = {k[3:]: v for k, v in list(globals().items()) if k.startswith("_b_")}


def encode_index(idx):
    if isinstance(idx, tuple):
        return {"t": [encode_index(i) for i in idx]}
    if isinstance(idx, slice):
        return {"s": [idx.start, idx.stop, idx.step]}
    if idx is None:
        return {"n": 0}
    if idx is Ellipsis:
        return {"e": 0}
    if isinstance(idx, np.bool_):
        return {"nb": bool(idx)}
    if isinstance(idx, (list, np.ndarray)):
        a = np.asarray(idx)
        return {"a": a.tolist(), "b": bool(a.dtype == bool)}
    return int(idx)


def decode_index(j):
    if isinstance(j, dict):
        if "t" in j:
            return tuple(decode_index(i) for i in j["t"])
        if "s" in j:
            return slice(*j["s"])
        if "n" in j:
            return None
        if "e" in j:
            return Ellipsis
        if "a" in j:
            return np.array(j["a"], dtype=bool if j.get("b") else np.intp)
        if "f" in j:
            return np.array(j["f"], dtype=float)
        if "nb" in j:
            return np.bool_(j["nb"])          # a numpy boolean SCALAR (0-d mask), e.g. the result of line.contains(p)
    return j


class World:
    """Live objects by slot, with their O1 snapshots."""

    def __init__(self) -> None:
        self.slots: dict[int, object] = {}
        self.snaps: dict[int, object] = {}
        self.metas: dict[int, dict] = {}
        self.fills: int = 0
        self.origin: dict[int, str] = {}

    def get(self, slot):
        if slot not in self.slots:
            raise KeyError(f"void slot {slot}")
        return self.slots[slot]

    def has(self, slot) -> bool:
        return slot in self.slots

    def put(self, slot: int, obj, origin: str = "") -> None:
        self.slots[slot] = obj
        self.snaps[slot] = snapshot.snap(obj)
        self.metas[slot] = meta(obj)
        self.origin[slot] = origin

    def drop(self, slot: int) -> None:
        self.slots.pop(slot, None)
        self.snaps.pop(slot, None)
        self.metas.pop(slot, None)

    def build(self, recipes: list[dict]) -> list[str]:
        """Build the initial pool. A recipe that raises leaves its slot void (recorded)."""
        errs = []
        global _LAYOUT
        for r in recipes:
            try:
                _LAYOUT = r.get("layout")
                try:
                    obj = BUILDERS[r["k"]](self, *r.get("a", []), **r.get("kw", {}))
                finally:
                    _LAYOUT = None
                if r.get("poke"):
                    idx, val = r["poke"]
                    obj.array[tuple(idx)] = val   # user-level write before the history starts (see program.noisy)
            except Exception as e:  # noqa: BLE001 -- a degenerate recipe is an ordinary outcome
                errs.append(f"{r['slot']}:{type(e).__name__}")
                continue
            self.put(r["slot"], obj, "recipe:" + r["k"])
        return errs

    def check(self, slots=None) -> list[tuple[str, str, str]]:
        """O1 on the given slots (default: all). Returns (slot name, path, kind) for every illegal change."""
        bad = []
        it = self.slots.keys() if slots is None else [s for s in slots if s in self.slots]
        for s in list(it):
            old = self.snaps[s]
            new = snapshot.snap(self.slots[s])
            if new != old:
                changed = False
                for path, kind in snapshot.diff(old, new):
                    if kind == "fill":
                        self.fills += 1
                        changed = True
                    else:
                        bad.append((f"slot{s}:{self.metas[s]['cls'] if self.metas[s] else '?'}", path, kind))
                if changed and not bad:
                    self.snaps[s] = new
        return bad
