#!/venv/bin/python
"""Entry point of the geosim checks.

  check.py <C05|C06|C12> [--tier quick|thorough] [--seed N] [--runs N] [--budget S] [--workers N]
  check.py <id> --replay FILE
  check.py selftest [--tier quick|thorough]

Exit 0: property held on everything explored (KNOWN-FINDING lines for listed open findings).
Exit 1: `VIOLATION property=<id> replay=<path>` (violation not listed in known_findings.txt).
Exit 2: harness error (nondeterminism, hang, replay that does not reproduce, worker crash).
"""
from __future__ import annotations

import argparse
import json
import os
import sys
import time

VERIF = os.path.dirname(os.path.abspath(__file__))


def ensure_env() -> None:
    """Re-exec once with a pinned interpreter environment (hash seed, single-threaded BLAS)."""
    if os.environ.get("GEOSIM_CHILD") == "1":
        return
    env = dict(os.environ)
    env.update({"GEOSIM_CHILD": "1", "PYTHONHASHSEED": env.get("GEOSIM_HASHSEED", "0"), "OPENBLAS_NUM_THREADS": "1",
                "OMP_NUM_THREADS": "1", "MKL_NUM_THREADS": "1", "PYTHONDONTWRITEBYTECODE": "1"})
    src = env.get("GEOMETER_SRC")
    if src:
        env["PYTHONPATH"] = src + os.pathsep + env.get("PYTHONPATH", "")
    os.execve(sys.executable, [sys.executable] + sys.argv, env)


def main() -> int:
    ensure_env()
    sys.path.insert(0, VERIF)
    ap = argparse.ArgumentParser()
    ap.add_argument("prop")
    ap.add_argument("--tier", default=os.environ.get("VERIF_TIER", "quick"), choices=["quick", "thorough"])
    ap.add_argument("--seed", type=int, default=int(os.environ.get("VERIF_SEED", "0")))
    ap.add_argument("--runs", type=int, default=None)
    ap.add_argument("--budget", type=float, default=None)
    ap.add_argument("--workers", type=int, default=min(16, os.cpu_count() or 1))
    ap.add_argument("--replay", default=None)
    ap.add_argument("--quiet-replay", action="store_true")
    ap.add_argument("--no-evidence", action="store_true")
    ap.add_argument("--no-selftest", action="store_true")
    ap.add_argument("--digest-seeds", type=int, default=None, help="internal: print {seed: digest} for the first N seeds")
    args = ap.parse_args()

    import geometer

    src = os.path.realpath(os.path.dirname(os.path.dirname(geometer.__file__)))
    want = os.path.realpath(os.environ.get("GEOMETER_SRC", "/repo"))
    if src != want:
        print(f"HARNESS-ERROR geometer imported from {src}, expected {want}")
        return 2

    from geosim import profiles

    if args.prop == "selftest":
        from geosim import selftest

        return selftest.main(args)
    if args.prop not in profiles.PROFILES:
        print(f"unknown property {args.prop}; claimed: {sorted(profiles.PROFILES)}")
        return 2
    prof = profiles.PROFILES[args.prop]
    if args.digest_seeds is not None:
        from geosim import selftest

        return selftest.print_digests(prof, args)
    if args.replay:
        return profiles.do_replay(prof, args)
    return profiles.do_check(prof, args)


if __name__ == "__main__":
    sys.exit(main())
