#!/venv/bin/python
"""Confirm a sub-agent's seeded change in its scratch worktree, then file it under /verif/seeded/<id>/.

usage: verify_seeded.py <worktree> <id> <property> "<what it needs to manifest>"
"""
import json, os, shutil, subprocess, sys

wt, sid, prop, needs = sys.argv[1:5]
env = dict(os.environ, PYTHONPATH=wt, OPENBLAS_NUM_THREADS="1")
PY = "/venv/bin/python"


def run(cmd, **kw):
    return subprocess.run(cmd, cwd=wt, env=env, capture_output=True, text=True, timeout=1800, **kw)


log = []
r = run([PY, "-c", "import geometer; print(geometer.__file__)"])
assert r.stdout.strip().startswith(wt), r.stdout
demo = "demo.py" if os.path.exists(f"{wt}/demo.py") else "demo_test.py"
demo_cmd = [PY, demo] if demo == "demo.py" else [PY, "-m", "pytest", "-q", "-p", "no:cacheprovider", demo]
# patch.diff must equal the tracked diff and apply to a clean tree
d = run(["git", "diff", "--", "geometer"]).stdout
open(f"{wt}/patch.diff", "w").write(d)
t = run([PY, "-m", "pytest", "-q", "-p", "no:cacheprovider", "tests"])
log.append("tests with change: " + t.stdout.strip().splitlines()[-1])
a = run(demo_cmd)
log.append(f"demo with change: exit {a.returncode}")
run(["git", "apply", "-R", "patch.diff"])
try:
    b = run(demo_cmd)
    log.append(f"demo without change: exit {b.returncode}")
    t0 = run(["git", "status", "--short", "--", "geometer"]).stdout.strip()
finally:
    run(["git", "apply", "patch.diff"])
ok = " passed" in log[0] and "failed" not in log[0] and a.returncode != 0 and b.returncode == 0 and t0 == ""
print("\n".join(log), "\nCONFIRMED" if ok else "\nNOT CONFIRMED")
if not ok:
    print(a.stdout[-800:], a.stderr[-800:], b.stdout[-500:], b.stderr[-500:])
    sys.exit(1)
dst = f"/verif/seeded/{sid}"
os.makedirs(dst, exist_ok=True)
for f in ("patch.diff", demo, "NOTES.md"):
    if os.path.exists(f"{wt}/{f}"):
        shutil.copy(f"{wt}/{f}", dst)
json.dump({"id": sid, "property": prop, "needs_to_manifest": needs, "confirmed_by": log,
           "base_commit": run(["git", "rev-parse", "HEAD"]).stdout.strip(), "demo": demo,
           "how_confirmed": "tools/verify_seeded.py: test suite with the change in the scratch worktree, demo with the "
                            "change (must fail) and with the change reverted (must pass)"},
          open(f"{dst}/meta.json", "w"), indent=1)
print("filed under", dst)
