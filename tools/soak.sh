#!/bin/bash
# usage: tools/soak.sh <first seed> <count>   -- thorough tier of all three checks for consecutive seeds; prints one line per run
cd "$(dirname "$0")/.."
for ((s=$1; s<$1+$2; s++)); do
  for p in C06 C05 C12; do
    out=$(/venv/bin/python check.py $p --tier thorough --seed $s --no-selftest --no-evidence 2>&1)
    echo "seed=$s $p exit=$? $(echo "$out" | tail -1)"
    echo "$out" | grep -A2 "^VIOLATION\|^HARNESS" | cut -c1-400
  done
done
