#!/bin/bash
# usage: tools/verify_multi.sh <worktree> <id prefix> <property>   -- files m1..m3 of a sub-agent worktree as <prefix>1..3
wt=$1; pre=$2; prop=$3
for i in 1 2 3; do
  d=$wt/m$i
  [ -f $d/patch.diff ] || continue
  git -C $wt checkout -q -- geometer
  git -C $wt apply $d/patch.diff || { echo "m$i: patch does not apply"; continue; }
  cp $d/demo.py $wt/demo.py; cp $d/NOTES.md $wt/NOTES.md 2>/dev/null
  needs=$(grep -i -m1 -A3 "needs\|manifest" $d/NOTES.md | tr '\n' ' ' | cut -c1-300)
  /venv/bin/python /verif/tools/verify_seeded.py $wt ${pre}$i $prop "$needs" 2>&1 | tail -2
  git -C $wt checkout -q -- geometer; rm -f $wt/demo.py $wt/NOTES.md $wt/patch.diff
done
